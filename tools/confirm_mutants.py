#!/venv/bin/python
"""Confirm seeded changes produced by sub-agents: in a scratch worktree of /repo
 (1) demo passes on the clean tree, (2) patch applies, (3) the 400 baseline tests still pass,
 (4) demo fails with the patch.  Writes /tmp/mut/<ID>/confirm_m<k>.json.  Never touches /repo's tree."""
import json, os, subprocess, sys, glob, xml.etree.ElementTree as ET
from concurrent.futures import ThreadPoolExecutor

STABLE = json.load(open('/root/.vp/BASELINE.json'))['stable_pass']
BASE = os.environ.get('MUT_BASE', '/tmp/mut')
WT_PREFIX = os.environ.get('MUT_WT', '/tmp/wt/')


def sh(cmd, cwd, env=None, timeout=1800):
    e = dict(os.environ); e.update(env or {})
    p = subprocess.run(cmd, shell=True, cwd=cwd, env=e, stdout=subprocess.PIPE, stderr=subprocess.STDOUT, timeout=timeout)
    return p.returncode, p.stdout.decode(errors='replace')


def one(pid):
    wt = os.path.join(WT_PREFIX, pid)
    out = []
    sh('git checkout -- . && git clean -fdq', wt)
    for diff in sorted(glob.glob(BASE + '/%s/m*.diff' % pid)):
        k = os.path.basename(diff)[1:-5]
        demo = BASE + '/%s/demo_m%s.py' % (pid, k)
        if not os.path.exists(demo):
            demo = BASE + '/%s/demo%s.py' % (pid, k)
        env = {'PYTHONPATH': wt, 'FLOWCAL_ROOT': wt, 'MPLBACKEND': 'Agg'}
        res = {'property': pid, 'mutant': 'm' + k}
        rc0, o0 = sh('/venv/bin/python %s' % demo, wt, env)
        res['demo_clean_exit'] = rc0
        rc, o = sh('git apply %s' % diff, wt)
        res['applies'] = rc == 0
        if rc == 0:
            junit = BASE + '/%s/junit_m%s.xml' % (pid, k)
            sh('/venv/bin/python -m pytest -q -p no:cacheprovider -n 4 --timeout=900 --junitxml=%s' % junit, wt)
            ok = set()
            try:
                for tc in ET.parse(junit).iter('testcase'):
                    if not any(c.tag in ('failure', 'error', 'skipped') for c in tc):
                        ok.add(tc.get('classname') + '::' + tc.get('name'))
            except Exception as e:
                res['junit_error'] = str(e)
            res['baseline_failing'] = sorted(set(STABLE) - ok)
            rc1, o1 = sh('/venv/bin/python %s' % demo, wt, env)
            res['demo_mutant_exit'] = rc1
            res['demo_mutant_tail'] = o1.strip().split('\n')[-3:]
            os.remove(junit) if os.path.exists(junit) else None
        sh('git checkout -- . && git clean -fdq', wt)
        res['confirmed'] = bool(res.get('applies') and rc0 == 0 and res.get('demo_mutant_exit') not in (0, None)
                                and not res.get('baseline_failing'))
        json.dump(res, open(BASE + '/%s/confirm_m%s.json' % (pid, k), 'w'), indent=1)
        out.append((pid, 'm' + k, res['confirmed'], rc0, res.get('demo_mutant_exit'), len(res.get('baseline_failing', []))))
    return out


if __name__ == '__main__':
    pids = sys.argv[1:] or ['C%02d' % i for i in range(1, 21)]
    with ThreadPoolExecutor(4) as ex:
        for r in ex.map(one, pids):
            for x in r:
                print(*x)
