#!/venv/bin/python
"""Rewrites the MATRIX section of DESIGN.md from /verif/seeded/MATRIX.json and the meta files."""
import json, os, glob
V = os.path.dirname(os.path.dirname(os.path.abspath(__file__)))
m = json.load(open(os.path.join(V, 'seeded', 'MATRIX.json')))
rows = []
for n in sorted(m):
    mp = os.path.join(V, 'seeded', n, 'meta.json')
    if not os.path.exists(mp):
        continue
    meta = json.load(open(mp))
    fired = sorted(c for c, rc in m[n].items() if rc == 1)
    err = sorted(c for c, rc in m[n].items() if rc == 2)
    kind = 'twin' if meta.get('kind') == 'refactoring' else ('regression' if meta.get('reverse') else 'seeded')
    rows.append('| %s | %s | %s | %s | %s |' % (n, meta['property'], kind, (meta.get('summary') or '')[:140].replace('|', '/').replace('\n', ' '),
                                          (','.join(fired) or '-') + ((' (exit 2: ' + ','.join(err) + ')') if err else '')))
nb = [n for n in m if os.path.exists(os.path.join(V, 'seeded', n, 'meta.json')) and json.load(open(os.path.join(V, 'seeded', n, 'meta.json'))).get('kind') != 'refactoring']
own = [n for n in nb if m[n].get(json.load(open(os.path.join(V, 'seeded', n, 'meta.json')))['property']) == 1]
head = ('Each change was produced by a fresh sub-agent that saw only the property text and a scratch worktree (or is a reversed '
        '`fix:` commit), was confirmed by `tools/confirm_mutants.py` (demonstration passes on the clean tree and fails with the '
        'change; the 400 baseline tests still pass), and is kept under `/verif/seeded/<name>/` (patch.diff, demo.py, meta.json). '
        '`tools/matrix.py` applies each one to a scratch copy and runs all 20 checks.\n\n'
        'Breaking variants: %d; reported by the check of their own property: %d.\n\n'
        '| variant | property | kind | change | checks that report it (exit 1) |\n|---|---|---|---|---|\n' % (len(nb), len(own)))
p = os.path.join(V, 'DESIGN.md')
s = open(p).read()
a, b = s.index('<!-- MATRIX-BEGIN -->'), s.index('<!-- MATRIX-END -->')
s = s[:a] + '<!-- MATRIX-BEGIN -->\n' + head + '\n'.join(rows) + '\n' + s[b:]
open(p, 'w').write(s)
print('rows', len(rows))
