#!/usr/bin/env python3-vt
import json, sys, glob, jsonschema
m = json.load(open('/verif/MANIFEST.json')); jsonschema.validate(m, json.load(open('/root/.vp/MANIFEST.schema.json')))
s = json.load(open('/root/.vp/EVIDENCE.schema.json'))
bad = 0
for c in m['checks']:
    try:
        jsonschema.validate(json.load(open(c['evidence_file'])), s)
    except Exception as e:
        bad += 1; print('BAD', c['evidence_file'], str(e)[:200])
ids = {c['property_id'] for c in m['checks']} | {n['property_id'] for n in m.get('not_applicable', [])}
print('manifest valid; checks=%d na=%d covered=%d bad_evidence=%d' % (len(m['checks']), len(m.get('not_applicable', [])), len(ids), bad))
