#!/venv/bin/python
"""Regenerate flowlint/contexts.json: the run context (dominating test outcomes, enclosing try
bodies/handlers) of every documented statement and of every return, as found on /repo's tree.
Run only on a tree whose checks were reviewed; the diff of contexts.json is then reviewed and committed.
The checks themselves never write this file."""
import json, os, subprocess, sys
V = os.path.dirname(os.path.dirname(os.path.abspath(__file__)))
out = os.path.join(V, 'flowlint', 'contexts.json')
tmp = out + '.new'
if os.path.exists(tmp):
    os.remove(tmp)
env = dict(os.environ, FLOWLINT_FREEZE=tmp)
for i in range(1, 21):
    pid = 'C%02d' % i
    p = subprocess.run(['/venv/bin/python', os.path.join(V, 'check'), pid, '--no-selftest', '--out-dir', '/tmp/w/freeze_out'], env=env,
                       stdout=subprocess.PIPE, stderr=subprocess.STDOUT, text=True)
    for l in p.stdout.splitlines():
        if 'FREEZE-CONFLICT' in l or 'ANALYSIS-ERROR' in l:
            print(pid, l)
d = json.load(open(tmp))
json.dump(d, open(out, 'w'), indent=0, sort_keys=True)
os.remove(tmp)
print('contexts recorded: %d (%d with a non-empty context)' % (len(d), sum(1 for v in d.values() if v)))
