#!/bin/bash
# usage: try_mutant.sh <diff> <ID> [<ID>...]   -- applies the diff to /repo, runs the checks, restores /repo
diff="$1"; shift
if ! git -C /repo diff --quiet; then echo "/repo is dirty, refusing"; exit 3; fi
git -C /repo apply "$diff" || { echo "APPLY-FAILED $diff"; exit 3; }
for id in "$@"; do
  out=$(/venv/bin/python /verif/check "$id" 2>&1); rc=$?
  echo "== $(basename $(dirname $diff))/$(basename $diff) check=$id exit=$rc"
  echo "$out" | grep -E "VIOLATION|ANALYSIS-ERROR|\[" | head -8
done
git -C /repo checkout -- .
