#!/bin/sh
# usage: tools/try_ref.sh <patch> <Cxx> [...]: run checks on a scratch copy of /repo/FlowCal with the patch applied
p=$1; shift
t=$(mktemp -d /tmp/flowlint_try_XXXXXX)
cp -r /repo/FlowCal $t/FlowCal
patch -p1 -s -d $t < $p || { echo "apply failed"; rm -rf $t; exit 3; }
for c in "$@"; do /venv/bin/python /verif/check $c --root $t --out-dir $t/out 2>&1 | grep -v "^VIOLATION prop" | cut -c1-${W:-700}; done
rm -rf $t
