#!/venv/bin/python
"""Apply behaviour-preserving refactorings (diffs from sub-agents under /tmp/ref/*/r*.diff or stored
under /verif/seeded/twin-*/patch.diff) to scratch copies and run all checks: every check should exit 0."""
import glob, json, os, shutil, subprocess, sys, tempfile
from concurrent.futures import ThreadPoolExecutor
VERIF = os.path.dirname(os.path.dirname(os.path.abspath(__file__)))
IDS = ['C%02d' % i for i in range(1, 21)]


def run(patch):
    tmp = tempfile.mkdtemp(prefix='flowlint_ref_')
    try:
        shutil.copytree('/repo/FlowCal', os.path.join(tmp, 'FlowCal'))
        p = subprocess.run(['patch', '-p1', '-s', '-d', tmp], stdin=open(patch), stdout=subprocess.PIPE, stderr=subprocess.STDOUT)
        if p.returncode != 0:
            return patch, {'apply_failed': True}, {}
        res, outs = {}, {}
        for c in IDS:
            q = subprocess.run(['/venv/bin/python', os.path.join(VERIF, 'check'), c, '--root', tmp, '--out-dir', os.path.join(tmp, 'out')],
                               stdout=subprocess.PIPE, stderr=subprocess.STDOUT)
            res[c] = q.returncode
            if q.returncode:
                outs[c] = [l[:300] for l in q.stdout.decode().split('\n') if l and 'VIOLATION prop' not in l][1:4]
        return patch, res, outs
    finally:
        shutil.rmtree(tmp, ignore_errors=True)


if __name__ == '__main__':
    patches = sys.argv[1:] or sorted(glob.glob(os.path.join(VERIF, 'seeded', 'twin-*', 'patch.diff')))
    alarms = 0
    with ThreadPoolExecutor(8) as ex:
        for patch, res, outs in ex.map(run, patches):
            bad = {c: rc for c, rc in res.items() if rc}
            print('%s: %s' % (patch, 'silent' if not bad else bad))
            for c, o in outs.items():
                for l in o:
                    print('      %s %s' % (c, l))
            alarms += 1 if bad else 0
    print('refactorings: %d, with at least one alarm: %d' % (len(patches), alarms))
