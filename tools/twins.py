#!/venv/bin/python
"""Behaviour-preserving twins of /repo's FlowCal package, computed on the syntax tree:
  reformat      : every module round-tripped through ast.unparse (comments gone, layout normalised)
  rename-locals : every local variable of every function consistently renamed (<name>_tw)
Every check must stay silent (exit 0) on every twin.  usage: twins.py [kind ...] [--checks C01 ...]"""
import ast, os, shutil, subprocess, sys, tempfile
from concurrent.futures import ThreadPoolExecutor

VERIF = os.path.dirname(os.path.dirname(os.path.abspath(__file__)))
IDS = ['C%02d' % i for i in range(1, 21)]
MODS = ['io', 'transform', 'gate', 'stats', 'mef', 'plot', 'excel_ui']


def params_of(f):
    a = f.args
    out = {x.arg for x in a.posonlyargs + a.args + a.kwonlyargs}
    if a.vararg:
        out.add(a.vararg.arg)
    if a.kwarg:
        out.add(a.kwarg.arg)
    return out


def rename_locals(tree, suffix='_tw'):
    def do_function(f):
        keep = set(params_of(f))
        # nested functions' parameters stay as they are
        for n in ast.walk(f):
            if isinstance(n, (ast.FunctionDef, ast.Lambda)) and n is not f:
                keep |= params_of(n)
        local = set()
        for n in ast.walk(f):
            if isinstance(n, ast.Name) and isinstance(n.ctx, (ast.Store, ast.Del)):
                local.add(n.id)
            elif isinstance(n, ast.ExceptHandler) and n.name:
                local.add(n.name)
            elif isinstance(n, (ast.Global, ast.Nonlocal)):
                keep |= set(n.names)
            elif isinstance(n, (ast.Import, ast.ImportFrom)):
                for al in n.names:
                    keep.add((al.asname or al.name).split('.')[0])
            elif isinstance(n, (ast.FunctionDef, ast.ClassDef)) and n is not f:
                keep.add(n.name)
        local -= keep
        local = {x for x in local if not (x.startswith('__') and x.endswith('__'))}
        for n in ast.walk(f):
            if isinstance(n, ast.Name) and n.id in local:
                n.id = n.id + suffix
            elif isinstance(n, ast.ExceptHandler) and n.name in local:
                n.name = n.name + suffix

    def visit(body):
        for st in body:
            if isinstance(st, (ast.FunctionDef, ast.AsyncFunctionDef)):
                do_function(st)
            elif isinstance(st, ast.ClassDef):
                visit(st.body)
    visit(tree.body)
    return tree


def make(kind, dst):
    shutil.copytree('/repo/FlowCal', os.path.join(dst, 'FlowCal'))
    for m in MODS:
        p = os.path.join(dst, 'FlowCal', m + '.py')
        src = open(p).read()
        tree = ast.parse(src)
        if kind == 'rename-locals':
            tree = rename_locals(tree)
        out = ast.unparse(tree) + '\n'
        compile(out, p, 'exec')
        open(p, 'w').write(out)


def run(kind, checks):
    tmp = tempfile.mkdtemp(prefix='flowlint_twin_')
    try:
        make(kind, tmp)
        res = {}
        def one(c):
            q = subprocess.run(['/venv/bin/python', os.path.join(VERIF, 'check'), c, '--root', tmp, '--out-dir', os.path.join(tmp, 'out_' + c)],
                               stdout=subprocess.PIPE, stderr=subprocess.STDOUT)
            return c, q.returncode, q.stdout.decode()
        with ThreadPoolExecutor(16) as ex:
            for c, rc, out in ex.map(one, checks):
                res[c] = (rc, out)
        return res
    finally:
        shutil.rmtree(tmp, ignore_errors=True)


if __name__ == '__main__':
    args = sys.argv[1:]
    checks = IDS
    if '--checks' in args:
        i = args.index('--checks')
        checks = args[i + 1:]
        args = args[:i]
    kinds = args or ['reformat', 'rename-locals']
    bad = 0
    for k in kinds:
        res = run(k, checks)
        for c in checks:
            rc, out = res[c]
            if rc != 0:
                bad += 1
                lines = [l for l in out.split('\n') if 'VIOLATION' not in l and l.strip()]
                print('TWIN %s: %s exit=%d' % (k, c, rc))
                for l in lines[1:6]:
                    print('     ', l[:260])
        print('twin %s: %d/%d checks silent' % (k, sum(1 for c in checks if res[c][0] == 0), len(checks)))
    sys.exit(1 if bad else 0)
