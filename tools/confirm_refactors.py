#!/venv/bin/python
"""Confirm sub-agent refactorings in scratch worktrees (never /repo): the patch applies, the 400 baseline
tests still pass, and the agent's differential script prints the same digest on the clean tree and with
the patch (behaviour unchanged on its inputs).  env REF_BASE (default /tmp/ref2), REF_WT (default /tmp/wtr)."""
import json, os, subprocess, sys, glob, hashlib, xml.etree.ElementTree as ET
from concurrent.futures import ThreadPoolExecutor
STABLE = json.load(open('/root/.vp/BASELINE.json'))['stable_pass']
BASE = os.environ.get('REF_BASE', '/tmp/ref2')
WT = os.environ.get('REF_WT', '/tmp/wtr')


def sh(cmd, cwd, env=None, timeout=3600):
    e = dict(os.environ); e.update(env or {})
    p = subprocess.run(cmd, shell=True, cwd=cwd, env=e, stdout=subprocess.PIPE, stderr=subprocess.DEVNULL, timeout=timeout)
    return p.returncode, p.stdout


def one(t):
    wt = os.path.join(WT, t)
    out = []
    sh('git checkout -- . && git clean -fdq', wt)
    env = {'PYTHONPATH': wt, 'FLOWCAL_ROOT': wt, 'MPLBACKEND': 'Agg', 'PYTHONHASHSEED': '0'}
    for diff in sorted(glob.glob('%s/%s/r*.diff' % (BASE, t))):
        k = os.path.basename(diff)[1:-5]
        script = '%s/%s/diff%s.py' % (BASE, t, k)
        res = {}
        rc0, o0 = sh('/venv/bin/python %s' % script, wt, env) if os.path.exists(script) else (None, b'')
        rc, o = sh('git apply %s' % diff, wt)
        res['applies'] = rc == 0
        if rc == 0:
            junit = '%s/%s/junit_r%s.xml' % (BASE, t, k)
            sh('/venv/bin/python -m pytest -q -p no:cacheprovider -n 4 --timeout=900 --junitxml=%s' % junit, wt)
            ok = set()
            for tc in ET.parse(junit).iter('testcase'):
                if not any(c.tag in ('failure', 'error', 'skipped') for c in tc):
                    ok.add(tc.get('classname') + '::' + tc.get('name'))
            res['baseline_failing'] = sorted(set(STABLE) - ok)
            os.remove(junit)
            rc1, o1 = sh('/venv/bin/python %s' % script, wt, env) if os.path.exists(script) else (None, b'')
            res['diff_script'] = {'clean_exit': rc0, 'patched_exit': rc1, 'same_output': o0 == o1, 'bytes': len(o0),
                                  'sha1': hashlib.sha1(o0).hexdigest()[:12]}
        sh('git checkout -- . && git clean -fdq', wt)
        res['confirmed'] = bool(res['applies'] and not res.get('baseline_failing') and res.get('diff_script', {}).get('same_output')
                                and res['diff_script']['bytes'] > 0 and res['diff_script']['clean_exit'] == res['diff_script']['patched_exit'])
        json.dump(res, open('%s/%s/confirm_r%s.json' % (BASE, t, k), 'w'))
        out.append((t, 'r' + k, res['confirmed'], res.get('diff_script')))
    return out


if __name__ == '__main__':
    ids = sys.argv[1:] or sorted(os.path.basename(d) for d in glob.glob(BASE + '/*') if os.path.isdir(d))
    with ThreadPoolExecutor(5) as ex:
        for r in ex.map(one, ids):
            for x in r:
                print(*x)
