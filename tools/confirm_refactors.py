#!/venv/bin/python
"""Confirm sub-agent refactorings: patch applies in a scratch worktree and the 400 baseline tests still pass."""
import json, os, subprocess, sys, glob, xml.etree.ElementTree as ET
from concurrent.futures import ThreadPoolExecutor
STABLE = json.load(open('/root/.vp/BASELINE.json'))['stable_pass']

def sh(cmd, cwd):
    p = subprocess.run(cmd, shell=True, cwd=cwd, stdout=subprocess.PIPE, stderr=subprocess.STDOUT)
    return p.returncode, p.stdout.decode(errors='replace')

def one(t):
    wt = '/tmp/wt/' + t
    out = []
    sh('git checkout -- . && git clean -fdq', wt)
    for diff in sorted(glob.glob('/tmp/ref/%s/r*.diff' % t)):
        k = os.path.basename(diff)[:-5]
        rc, o = sh('git apply %s' % diff, wt)
        res = {'applies': rc == 0}
        if rc == 0:
            junit = '/tmp/ref/%s/junit_%s.xml' % (t, k)
            sh('/venv/bin/python -m pytest -q -p no:cacheprovider -n 4 --timeout=900 --junitxml=%s' % junit, wt)
            ok = set()
            for tc in ET.parse(junit).iter('testcase'):
                if not any(c.tag in ('failure', 'error', 'skipped') for c in tc):
                    ok.add(tc.get('classname') + '::' + tc.get('name'))
            res['baseline_failing'] = sorted(set(STABLE) - ok)
            os.remove(junit)
        sh('git checkout -- . && git clean -fdq', wt)
        res['confirmed'] = bool(res['applies'] and not res.get('baseline_failing'))
        json.dump(res, open('/tmp/ref/%s/confirm_%s.json' % (t, k), 'w'))
        out.append((t, k, res['confirmed']))
    return out

with ThreadPoolExecutor(4) as ex:
    for r in ex.map(one, ['T%02d' % i for i in range(1, 11)]):
        for x in r: print(*x)
