"""debug helper: `from dbg import *; cx, root = patched('/path/to.diff', 'C09')` -> Context on a scratch copy"""
import ast, os, shutil, subprocess, sys, tempfile, atexit
sys.path.insert(0, '/verif')
from flowlint import core, rules, sym, canon
from flowlint.rules import *


def patched(diff=None, pid='C01'):
    t = tempfile.mkdtemp(prefix='flowlint_dbg_')
    atexit.register(lambda: shutil.rmtree(t, ignore_errors=True))
    shutil.copytree('/repo/FlowCal', os.path.join(t, 'FlowCal'))
    if diff:
        subprocess.run(['patch', '-p1', '-s', '-d', t], stdin=open(diff), check=True)
    cx = core.Context(pid, None, 'quick', 0)
    cx.repo = core.Repo(t)
    return cx, t


def show(cx, qual):
    m, f = cx.fn(qual)
    src = ast.unparse(f)
    d = ast.get_docstring(f)
    print(src.replace(d, '...') if d else src)
