#!/venv/bin/python
"""Regenerates /verif/MANIFEST.json from the table below and the props actually present."""
import json
import os

HERE = os.path.dirname(os.path.dirname(os.path.abspath(__file__)))

T = {
    'C01': ('GUARD/CALLARGS/SIB/EXITS/FORMULA over io.FCSFile.__init__, read_fcs_data_segment, read_fcs_header_segment',
            'refusal of unsupported layouts dominates every decode; HEADER and TEXT decode call sites agree; the decode expressions (dtype strings, byte shifts, bit mask, shape) have the documented normal forms',
            'dominance + call-argument agreement + normal-form comparison'),
    'C02': ('SLICE/REACH/ONCE/RNG/FORMULA over mef.get_transform_fxn, clustering_gmm, selection_std',
            'ordering before pairing, shared exclusion mask, one result per channel, only seedable randomness; clustering quality and the 10% bound are numerical and not decided',
            'def-use slicing + must-pass-through + normal forms'),
    'C03': ('SIB/WRITESET/NULLDEFAULT/CLOSURE/FORMULA over transform.to_rfi',
            'the two amplifier laws have the documented normal forms a1*10**(a0*x/r) and x/g; refusals; writes confined to the copy and the loop channel; defaults only under `is None`',
            'normal-form comparison + sibling alpha-equivalence + write-set analysis'),
    'C04': ('ATTRSET/GETITEM/KINDS/SIB over io.FCSData.__getitem__, __setitem__, _name_to_index, __array_finalize__',
            'per-channel attribute tables agree in all lifecycle methods and branches; abstract evaluation of the index-kind lattice (exhaustive) shows every kind is refused or reaches the branch whose meaning matches NumPy',
            'table agreement + abstract interpretation over a finite kind domain'),
    'C05': ('GUARD/REACH/FORMULA/GATESHAPE over gate.density2d',
            'refusals dominate use; out-of-grid filter reaches bin filling and the target count; cumulative cut, target count and edge reconciliation have the documented normal forms; one mask construction for gate and replay',
            'dominance + reaching definitions + normal forms'),
    'C06': ('GUARD/PAIR/WRITESET/ONCE over transform.to_mef and mef.get_transform_fxn',
            'coverage and length refusals dominate any write; curve and column come from the same zip tuple; writes confined to covered requested channels of a copy',
            'dominance + pairing through zip tuples + write-set analysis'),
    'C07': ('SAMELAW/WRITESET/GATEPRED over transform.transform, to_rfi, to_mef, gate.high_low',
            'range limits go through the same callable as the events of that channel; untouched channels keep their limits; default thresholds read from range with strict comparisons; bitwise float agreement is not decided',
            'def-use identity of the applied law'),
    'C08': ('GATESHAPE/GUARD/GATEPRED/API over the four gates',
            'for every return of every gate the gated data is the whole input indexed by the returned mask; the mask expressions have the documented normal forms; refusals dominate use; third-party names exist',
            'reaching definitions + normal-form comparison + dominance'),
    'C09': ('GUARD/ODDFORM/BOUNDS/FORMULA over mef.fit_beads_autofluorescence',
            'model, error and standard-curve functions have the documented normal forms; autofluorescence slot bounded at 0; refusals; recovery within 5% is numerical and not decided',
            'normal-form comparison + dominance'),
    'C10': ('PIPE/DISPATCH/TABLE/REACH over excel_ui.process_samples_table, process_beads_table, add_samples_stats, generate_histograms_table',
            'the per-row orchestration is the documented composition (stage order, data threading, constants, units dispatch, statistics bijection, histogram grid)',
            'def-use stage grammar + dispatch exhaustiveness + table agreement'),
    'C11': ('EXC/ONCE/LOOPIND/UNION over the two row loops and the three table writers',
            'every documented row fault reaches the row handler as ExcelUIException, handlers do not fault, one result per row on every normal path, no loop-carried state, error rows discriminated before use',
            'exception-flow analysis + must-pass-through + definite assignment per iteration'),
    'C12': ('SIB/IDENT/RANK/KINDS/API over the ten statistics',
            'shared slicing prelude and axis-0 reductions with the documented normal forms; identities by shared sub-expressions; result rank = input rank - 1 (installed scipy signature); index kinds NumPy reductions use are accepted',
            'sibling alpha-equivalence + rank abstract interpretation'),
    'C13': ('MUT/FRESH/ATTRSET over every public function and sample method of io, transform, gate, stats, mef, plot',
            'flow-sensitive interprocedural may-alias mutation analysis: no store, in-place operator, mutator call or mutating callee reaches a caller-owned object or the state of self; derived samples get fresh metadata',
            'may-alias effect analysis with summaries to a fixpoint'),
    'C14': ('CALLARGS/EXITS/TOKENIZER-SHAPE over io.read_fcs_text_segment and FCSFile.__init__',
            'supplemental segments parsed with the primary delimiter and merged; every failure exit of the tokenizer is a raise; parity arithmetic has the documented normal forms; tokenizer correctness for all strings is not decided',
            'call-argument agreement + exit classification + normal forms'),
    'C15': ('SEQ/TABLE/GUARD/API over excel_ui.run, read_table, write_workbook and everything reachable',
            'sheet list and stage order, writer-before-reader column agreement, null-id drop and duplicate refusal, every reachable third-party API exists with fitting signature; termination is not decided',
            'call-order + table agreement + API resolution over the reachable call graph'),
    'C16': ('GUARD/SIB/SHORTREAD/REQKEY over io.read_fcs_data_segment, read_fcs_text_segment, FCSFile.__init__',
            'every memmap dominated by the size check of the very shape it maps; the three checks alike; every segment read length-checked; layout keywords read with raising lookups',
            'dominance + sibling agreement + taint of read results'),
    'C17': ('OPTEXC/TAGS/TABLE/FORMULA over io.FCSData.__new__, _parse_time_string, _parse_date_string, acquisition_time',
            'every conversion of an optional keyword sits in a catching try; None/type-tag analysis of acquisition_time; keyword templates and derived-value formulas have the documented forms',
            'taint + exception coverage + type-tag abstract interpretation'),
    'C18': ('GUARD/SIB/FORMULA over plot._LogicleTransform, _InterpolatedInverseTransform, _LogicleScale',
            'parameter refusals dominate stores; T/M/W derivation and the biexponential have the documented normal forms; inverse constructions agree on [0, M]; bijection/accuracy are numerical and not decided',
            'dominance + normal-form comparison + sibling agreement'),
    'C19': ('GUARD/ONCE/SIB/REACH/FORMULA over io.FCSData.hist_bins',
            'unknown scale refused; one result per channel; n+1 edges with half-bin padding in all three scales (normal forms); non-positive lower limit replaced before log10; stored range not written',
            'normal forms + sibling agreement + must-pass-through'),
    'C20': ('ATTRSET/EQHASH over io.FCSData pickling/finalize and FCSFile equality',
            'state tuple, __reduce__, __setstate__, __array_finalize__, __new__ agree on the attribute set with straight wiring and deep copies; __eq__ and __hash__ cover the same components',
            'table agreement across lifecycle methods'),
}


def main():
    checks, na = [], []
    for pid in sorted(T):
        path = os.path.join(HERE, 'flowlint', 'props', pid.lower() + '.py')
        if not os.path.isfile(path):
            na.append({'property_id': pid, 'reason': 'static check not built yet (planned: %s)' % T[pid][0]})
            continue
        rules, text, tech = T[pid]
        checks.append({
            'property_id': pid,
            'quick_cmd': '/venv/bin/python /verif/check %s --tier quick' % pid,
            'thorough_cmd': '/venv/bin/python /verif/check %s --tier thorough' % pid,
            'evidence_file': '/verif/evidence/%s.json' % pid,
            'replay_cmd_template': '/venv/bin/python /verif/check %s --replay {path}' % pid,
            'engine': 'flowlint',
            'level_claimed': {
                'category': 'other',
                'text': 'Static analysis (no FlowCal code executed). Decides the structural clauses of the property on every path / for every input: %s. Rules: %s. Numerical clauses that no sound static argument reaches are listed under not_decided in the evidence.' % (text, rules),
                'design_ref': 'DESIGN.md section 4, ' + pid,
            },
            'level_note': 'Trusted: CPython ast, networkx dominators, the rule/idiom tables in flowlint/props/%s.py, installed third-party libraries as the API oracle; third-party calls outside the alias tables are assumed pure. Clauses decided and not decided are enumerated in the evidence file.' % pid.lower(),
            'technique': 'static analysis: ' + tech,
        })
    m = {
        'version': 1,
        'setup_cmd': '/venv/bin/python -m compileall -q /verif/flowlint /verif/check >/dev/null 2>&1; /venv/bin/python -c "import networkx, numpy, scipy"',
        'hooks': {
            'guard': 'FLOWCAL_VERIF',
            'enable': 'no hooks are needed: the checks parse /repo sources and never run them',
            'baseline_off_cmd': 'cd /repo && /venv/bin/python -m pytest -ra -q -p no:cacheprovider --timeout=900 --continue-on-collection-errors',
            'source_commits': [],
            'add_only': True,
        },
        'engines': [{'name': 'flowlint', 'path': '/verif/flowlint',
                     'serves_properties': [c['property_id'] for c in checks],
                     'kind_free_text': 'repository-specific static analyser: AST loader, statement CFG + dominators, reaching definitions, expression normal forms, may-alias effect analysis, finite abstract domains, third-party API resolution'}],
        'checks': checks,
        'not_applicable': na,
        'notes': 'All checks are static (family: static analysis). Genuine defects found were repaired with fix: commits in /repo and are recorded in /verif/known_findings.json.',
    }
    with open(os.path.join(HERE, 'MANIFEST.json'), 'w') as f:
        json.dump(m, f, indent=1)
    print('checks: %d, not_applicable: %d' % (len(checks), len(na)))


if __name__ == '__main__':
    main()
