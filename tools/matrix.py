#!/venv/bin/python
"""Run every check against every seeded change, each on its own scratch copy of /repo's FlowCal package
(never touching /repo).  Writes /verif/seeded/MATRIX.json and prints a summary."""
import json, os, shutil, subprocess, sys, tempfile, glob
from concurrent.futures import ThreadPoolExecutor

VERIF = os.path.dirname(os.path.dirname(os.path.abspath(__file__)))
IDS = ['C%02d' % i for i in range(1, 21)]


def run_variant(name, patch, reverse=False, checks=IDS):
    tmp = tempfile.mkdtemp(prefix='flowlint_scratch_')
    try:
        shutil.copytree('/repo/FlowCal', os.path.join(tmp, 'FlowCal'))
        cmd = ['patch', '-p1', '-s', '-d', tmp] + (['-R'] if reverse else [])
        p = subprocess.run(cmd, stdin=open(patch), stdout=subprocess.PIPE, stderr=subprocess.STDOUT)
        if p.returncode != 0:
            return name, {'apply_failed': p.stdout.decode()[:200]}
        res = {}
        for c in checks:
            q = subprocess.run(['/venv/bin/python', os.path.join(VERIF, 'check'), c, '--root', tmp, '--out-dir', os.path.join(tmp, 'out')],
                               stdout=subprocess.PIPE, stderr=subprocess.STDOUT)
            res[c] = q.returncode
        return name, res
    finally:
        shutil.rmtree(tmp, ignore_errors=True)


def main():
    variants = []
    for d in sorted(glob.glob(os.path.join(VERIF, 'seeded', '*', 'patch.diff'))):
        name = os.path.basename(os.path.dirname(d))
        meta = json.load(open(os.path.join(os.path.dirname(d), 'meta.json')))
        if meta.get('kind') == 'refactoring':
            continue
        variants.append((name, d, meta.get('reverse', False), meta))
    only = sys.argv[1:]
    if only:
        variants = [v for v in variants if any(v[0].startswith(o) for o in only)]
    out = {}
    with ThreadPoolExecutor(16) as ex:
        futs = [ex.submit(run_variant, n, p, r) for n, p, r, m in variants]
        for f in futs:
            n, res = f.result()
            out[n] = res
    missed = []
    for n, p, r, m in variants:
        res = out[n]
        own = m['property']
        fired = sorted(c for c, rc in res.items() if rc == 1)
        errs = sorted(c for c, rc in res.items() if rc == 2)
        print('%-14s own=%s own_exit=%s fired=%s%s' % (n, own, res.get(own), ','.join(fired), (' analysis-error=' + ','.join(errs)) if errs else ''))
        if res.get(own) != 1:
            missed.append(n)
    path = os.path.join(VERIF, 'seeded', 'MATRIX.json')
    old = json.load(open(path)) if os.path.exists(path) and only else {}
    old.update(out)
    json.dump(old, open(path, 'w'), indent=1, sort_keys=True)
    print('variants: %d, own check did not fire on: %s' % (len(variants), missed or 'none'))


if __name__ == '__main__':
    main()
