"""C07 hand demonstration: the converted range limit (evaluated on Python/NumPy *scalars* inside
to_rfi / to_mef) versus the converted value of an event sitting at that limit (evaluated by NumPy's
*array* loop).  The property demands bitwise equality because high_low compares strictly.
Run: /venv/bin/python /verif/findings/demo_c07_scalar_path.py"""
import sys, warnings, itertools
warnings.simplefilter('ignore')
sys.path.insert(0, '/repo')
import numpy as np
import FlowCal

d0 = FlowCal.io.FCSData('/repo/test/Data001.fcs')
ch = 'FL1-H'
hi = d0.range(ch)[1]            # 1023.0
bad = []
tried = 0
for a0, a1, r in itertools.product([1.0, 2.0, 3.0, 4.0, 4.5, 5.0, 0.5, 3.5], [1.0, 0.1, 10.0, 0.5], [256, 1024, 4096, 65536, 262144, 1000]):
    d = d0.copy()
    d[:, ch] = 0
    d[0, ch] = hi                # an event sitting at the upper limit
    d[1, ch] = hi
    t = FlowCal.transform.to_rfi(d, ch, amplification_type=(a0, a1), resolution=r)
    tried += 1
    lim = t.range(ch)[1]
    ev = np.asarray(t[:, ch])[0]
    if lim != ev:
        g_before = FlowCal.gate.high_low(d, ch, full_output=True).mask
        g_after = FlowCal.gate.high_low(t, ch, full_output=True).mask
        bad.append((a0, a1, r, repr(float(lim)), repr(float(ev)), int(g_before.sum()), int(g_after.sum())))
print('parameter combinations tried: %d, limit != event at the limit: %d' % (tried, len(bad)))
for b in bad[:8]:
    print('  a0=%s a1=%s r=%s limit=%s event=%s kept before conversion=%d kept after=%d' % b)
print('DEFECT' if bad else 'OK')

# ---- to_mef with the library's own standard-curve form sign(x)*exp(b)*|x|**m
bad2 = []
tried2 = 0
d = FlowCal.transform.to_rfi(d0, ch)
hi = d.range(ch)[1]
for m, b in itertools.product([round(0.85 + 0.01 * i, 2) for i in range(41)], [0.5, 1.0, 2.0, 3.3, 5.0]):
    sc = lambda x, m=m, b=b: np.sign(x) * np.exp(b) * (np.abs(x) ** m)
    e = d.copy(); e[:, ch] = 1.0; e[0, ch] = hi
    t = FlowCal.transform.to_mef(e, ch, [sc], [ch])
    tried2 += 1
    lim = t.range(ch)[1]; ev = np.asarray(t[:, ch])[0]
    if lim != ev:
        bad2.append((m, b, repr(float(lim)), repr(float(ev))))
print('to_mef: curve parameter combinations tried: %d, limit != event at the limit: %d' % (tried2, len(bad2)))
for x in bad2[:5]:
    print('  m=%s b=%s limit=%s event=%s' % x)
print('DEFECT' if bad2 else 'OK')
