"""C16 demonstration: a file whose TEXT segment lies after DATA, cut inside TEXT.
Property: loading a truncated file returns exactly the intact file's events and keywords, or raises.
Run: /venv/bin/python /verif/findings/demo_shortread.py"""
import sys, io, os, tempfile, warnings
warnings.simplefilter('ignore')
sys.path.insert(0, '/repo')
import numpy as np
import FlowCal

def build():
    n, d = 5, 2
    data = np.arange(n*d, dtype='<u2').tobytes()
    data_begin = 58
    data_end = data_begin + len(data) - 1
    text_begin = data_end + 1
    kv = [('$BEGINANALYSIS','0'),('$ENDANALYSIS','0'),('$BEGINSTEXT','0'),('$ENDSTEXT','0'),
          ('$BEGINDATA',str(data_begin)),('$ENDDATA',str(data_end)),
          ('$BYTEORD','1,2,3,4'),('$DATATYPE','I'),('$MODE','L'),('$NEXTDATA','0'),
          ('$PAR','2'),('$TOT',str(n)),
          ('$P1B','16'),('$P1R','1024'),('$P1N','A'),('$P1E','0,0'),
          ('$P2B','16'),('$P2R','1024'),('$P2N','B'),('$P2E','0,0'),
          ('$P1V','450'),('$P2V','500'),('$BTIM','12:00:00'),('$ETIM','12:01:00'),('$DATE','01-JAN-2020'),
          ('$TIMESTEP','0.01'),('CUSTOM','hello')]
    text = '|' + '|'.join('%s|%s' % p for p in kv) + '|'
    text_end = text_begin + len(text) - 1
    header = ('FCS3.0    %8d%8d%8d%8d%8d%8d' % (text_begin, text_end, data_begin, data_end, 0, 0)).encode()
    assert len(header) == 58
    return header + data + text.encode()

blob = build()
tmp = tempfile.mkdtemp()
def load(b):
    p = os.path.join(tmp, 'f.fcs')
    with open(p, 'wb') as f: f.write(b)
    return FlowCal.io.FCSData(p)
ref = load(blob)
ref_text = dict(ref.text); ref_vals = np.asarray(ref).copy()
bad = []
for cut in range(len(blob)):
    try:
        d = load(blob[:cut])
    except Exception:
        continue
    if dict(d.text) != ref_text or not np.array_equal(np.asarray(d), ref_vals):
        bad.append((cut, sorted(set(ref_text) - set(d.text))))
print('file length', len(blob), 'cut points that load with different content:', len(bad))
for b in bad[:5]: print('  cut', b[0], 'missing keywords', b[1])
print('DEFECT' if bad else 'OK')
import shutil; shutil.rmtree(tmp)
