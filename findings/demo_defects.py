"""Hand demonstrations of the genuine defects listed in known_findings.json.

Not part of any check (checks are static).  Run with
    /venv/bin/python /verif/findings/demo_defects.py
Each case prints DEFECT (property broken on this tree) or OK (behaves as the
property says)."""
import sys, warnings, io as _io, copy, datetime, traceback
import numpy as np
warnings.simplefilter('ignore')
sys.path.insert(0, '/repo')
import FlowCal

F = '/repo/test/Data001.fcs'

def case(name):
    def deco(f):
        try:
            r = f()
            print('%-34s %s' % (name, 'OK' if r is True else 'DEFECT: %s' % (r,)))
        except Exception as e:
            print('%-34s DEFECT: raised %s: %s' % (name, type(e).__name__, e))
    return deco

@case('C13/C19 hist_bins log range')
def _():
    d = FlowCal.io.FCSData(F)
    before = copy.deepcopy(d.range('FL1-H'))
    d.hist_bins('FL1-H', scale='log')
    return True if d.range('FL1-H') == before else 'range %s -> %s' % (before, d.range('FL1-H'))

@case('C13/C05 gate.density2d bins')
def _():
    d = FlowCal.io.FCSData(F)
    bins = [10, 20]
    FlowCal.gate.density2d(d, ['FSC-H', 'SSC-H'], bins=bins)
    return True if bins == [10, 20] else 'caller bins now %s' % ([type(b).__name__ for b in bins],)

@case('C13 plot.density2d bins')
def _():
    import matplotlib; matplotlib.use('Agg')
    d = FlowCal.io.FCSData(F)
    bins = [10, 20]
    FlowCal.plot.density2d(d, ['FSC-H', 'SSC-H'], bins=bins)
    return True if bins == [10, 20] else 'caller bins now %s' % ([type(b).__name__ for b in bins],)

@case('C13 mef.selection_std list/range')
def _():
    d = FlowCal.io.FCSData(F)
    pops = [d[:1000, ['FL1-H']], d[1000:2000, ['FL1-H']]]
    ids = [id(p) for p in pops]; r0 = copy.deepcopy(pops[0].range(0))
    p0 = pops[0]
    FlowCal.mef.selection_std(pops, scale='log')
    if [id(p) for p in pops] != ids: return 'caller list elements replaced'
    if p0.range(0) != r0: return 'range %s -> %s' % (r0, p0.range(0))
    return True

@case('C08 high_low on plain array')
def _():
    a = np.arange(20.).reshape(10, 2)
    g = FlowCal.gate.high_low(a, high=15, low=None)
    return True

@case('C12 stats.mode matrix rank')
def _():
    a = np.array([[1, 5], [1, 6], [2, 6]])
    m = FlowCal.stats.mode(a)
    return True if np.ndim(m) == 1 and list(m) == [1, 6] else 'mode(matrix)=%r' % (m,)

@case('C12 stats.mode vector')
def _():
    m = FlowCal.stats.mode(np.array([[1, 5], [1, 6], [2, 6]]), 0)
    return True if m == 1 else 'mode=%r' % (m,)

@case('C12 stats.iqr on float sample')
def _():
    d = FlowCal.io.FCSData(F)
    d = FlowCal.transform.to_rfi(d, 'FL1-H')
    FlowCal.stats.iqr(d, 'FL1-H'); FlowCal.stats.iqr(d, ['FL1-H', 'FL2-H'])
    return True

@case('C04 numpy integer column')
def _():
    d = FlowCal.io.FCSData(F)
    x = d[:, np.int64(2)]
    return True if x.channels == ('FL1-H',) else x.channels

@case('C04 Ellipsis column')
def _():
    d = FlowCal.io.FCSData(F)
    x = d[0, ...]
    return True if np.array_equal(np.asarray(x), np.asarray(d)[0, ...]) else 'values differ'

@case('C04 bool list column')
def _():
    d = FlowCal.io.FCSData(F)
    try:
        x = d[:, [True, False, True, False, False, False]]
    except (TypeError, ValueError, IndexError):
        return True
    return True if len(x.channels) == x.shape[1] else 'shape %s channels %s' % (x.shape, x.channels)

def _mkfile(extra):
    """Data001 with TEXT keywords replaced/added (rewritten as FCS3.0-like text at the same offsets is
    hard; instead patch the parsed dictionary through a fake FCSFile)."""
    raise NotImplementedError

class _FakeFile(object):
    pass

def _load_with(text_patch, drop=()):
    orig = FlowCal.io.FCSFile
    class Patched(orig):
        def __init__(self, infile):
            orig.__init__(self, infile)
            for k in drop: self._text.pop(k, None)
            self._text.update(text_patch)
    FlowCal.io.FCSFile = Patched
    try:
        return FlowCal.io.FCSData(F)
    finally:
        FlowCal.io.FCSFile = orig

@case('C17 ill-formed $TIMESTEP')
def _():
    d = _load_with({'$TIMESTEP': 'abc'}); return True if d.time_step is None else d.time_step

@case('C17 ill-formed TIMETICKS')
def _():
    d = _load_with({'TIMETICKS': 'abc'}, drop=('$TIMESTEP',)); return True if d.time_step is None else d.time_step

@case('C17 ill-formed hh:mm:ss:tt')
def _():
    d = _load_with({'$BTIM': '12:00:00:xx'}); return True if d.acquisition_start_time is None else d.acquisition_start_time

@case('C17 time channel, no time step')
def _():
    d = _load_with({}, drop=('$TIMESTEP', 'TIMETICKS'))
    t = d.acquisition_time
    return True

@case('C17 start/end without date')
def _():
    d = _load_with({'$BTIM': '12:00:00', '$ETIM': '12:01:00'}, drop=('$DATE',))
    d = d[:, ['FSC-H', 'SSC-H']]
    t = d.acquisition_time
    return True if t == 60. else t

@case('C11 gate fraction row error')
def _():
    import pandas as pd
    inst = pd.DataFrame({'Forward Scatter Channel': ['FSC-H'], 'Side Scatter Channel': ['SSC-H'],
                         'Fluorescence Channels': ['FL1-H, FL2-H']}, index=pd.Index(['I1'], name='ID'))
    smp = pd.DataFrame({'Instrument ID': ['I1', 'I1'], 'File Path': ['Data001.fcs', 'Data001.fcs'],
                        'Gate Fraction': [1.5, 0.3], 'FL1-H Units': ['RFI', 'RFI']},
                       index=pd.Index(['S1', 'S2'], name='ID'))
    out = FlowCal.excel_ui.process_samples_table(smp, inst, base_dir='/repo/test')
    ok = isinstance(out['S1'], FlowCal.excel_ui.ExcelUIException) and not isinstance(out['S2'], Exception)
    return True if ok else 'row results %r' % ({k: type(v).__name__ for k, v in out.items()},)

@case('C15 scatter3d')
def _():
    import matplotlib; matplotlib.use('Agg')
    d = FlowCal.io.FCSData(F)
    FlowCal.plot.scatter3d(d, ['FSC-H', 'SSC-H', 'FL1-H'])
    return True
