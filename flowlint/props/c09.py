"""C09 - fitting the bead model recovers the law that generated the beads."""
from . import mef_rules as M


def run(cx):
    M.fit_model(cx)
    cx.floor('FORMULA', cx.rules.get('FORMULA', 0), 11, 'fit statements')
    cx.decided += [
        'length mismatch and fewer than three populations are refused before anything is computed',
        'error function, bead model and standard curve have the documented normal forms: the standard curve is sign(x)*exp(b)*|x|**m (odd, zero at zero); the bead model is exp(m*log x + b) - autofluorescence with the same parameter indices',
        'the minimiser is bounded below by 0 exactly in the autofluorescence slot and unbounded elsewhere; initial guesses from the two brightest and the dimmest population',
        'returned closures capture the fitted vector of this call (fresh array per call, no defaults, no state)',
    ]
    cx.not_decided += ['recovery within 5%, optimiser convergence', 'equality beads_model = std_crv - autofluorescence as real functions (needs algebra beyond normal forms)']
