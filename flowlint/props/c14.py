"""C14 - TEXT keywords and values are returned exactly as written, or rejected."""
from . import io_segments as S


def run(cx):
    S.supplemental_callargs(cx)
    S.tokenizer(cx)
    S.short_reads(cx)
    S.propagation(cx)      # an ill-formed primary or supplemental TEXT ends the load (only ANALYSIS is tolerant)
    cx.floor('TOKENS', cx.rules.get('TOKENS', 0), 27, 'tokenizer statements')
    cx.decided += [
        'supplemental TEXT and both ANALYSIS reads are split with the primary delimiter (same definition reaches all three sites) and only their dictionary is used',
        'supplemental TEXT is read for FCS 3.x whenever both offsets are non-zero and merged into the primary dictionary before any keyword is consulted',
        'every step of the backwards scan has the documented normal form up to renaming (run length, ceil(run/2) escaped delimiters, boundary iff even run, glue with the already rebuilt right-hand token, reversal, even/odd pairing)',
        'exits: three returns, every failure a ValueError, one tolerated ending with a warning, no handler; the odd-count refusal dominates the pairing',
        'the bytes read are length-checked before anything looks at them',
    ]
    cx.not_decided += ['that the scan, so shaped, inverts the escaping rule for every string (a statement about all strings; enumeration against a reference tokenizer is a different technique family)']
