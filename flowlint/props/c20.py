"""C20 - a sample survives copying, viewing and pickling in any analysis state."""
from . import fcsdata_rules as R


def run(cx):
    A, mutable = R.attrset(cx)
    R.reduce_shape(cx)
    R.eqhash(cx)
    from ..rules import exits_of
    exits_of(cx, 'EXITS', ['io.FCSData.__array_finalize__', 'io.FCSData.__reduce__', 'io.FCSData.__setstate__', 'io.FCSFile.__eq__', 'io.FCSFile.__ne__', 'io.FCSFile.__hash__'])
    from . import io_segments
    io_segments.owned_events(cx)
    io_segments.sample_events(cx, "OWNED")
    # two loads are independent of each other and of earlier loads: the reader keeps no module-level state
    from . import mef_rules
    mef_rules.no_module_state(cx, ('io',))
    cx.exhaustive = True
    cx.floor('ATTRSET', cx.rules.get('ATTRSET', 0), 60, 'attribute wiring obligations')
    cx.decided += [
        'constructor, __array_finalize__, pickle state tuple, __reduce__ and __setstate__ agree on the %d attributes' % len(A),
        'every pairing is straight (field f <- self._f, self._f <- state.f, self._f <- copy of parent._f); no cross-wiring',
        'every attribute that is not immutable is deep-copied in __array_finalize__ (copies/views share no metadata)',
        '__reduce__ reads the current instance attributes (any analysis state) and keeps NumPy\'s own reduce value of this very array',
        '__setstate__ hands NumPy\'s state to ndarray.__setstate__',
        'the reader hands out events held in memory of their own (copy of the read-only map / freshly allocated array), so a load does not follow later changes of the file and loads are independent',
        'FCSFile.__eq__ and __hash__ cover the same five components; events compared exactly (np.array_equal)',
    ]
    cx.not_decided += ['NumPy\'s own pickling of buffer and dtype for every protocol', 'ndarray.copy/deepcopy/view semantics']
