"""C18 - the logicle scale is a strictly increasing bijection with an accurate inverse.

Decided: parameter refusals dominate the stores; derivation rules of T, M, W and the biexponential
have the documented normal forms; explicit parameters win; all constructions of the tabulated
inverse agree on [0, M]; masking of out-of-range values."""
import ast

from ..core import AnalysisError, norm_stmt
from ..rules import (Fn, guards, guard_dominates, names_in, kwarg, is_none_test, spec_check,
                     subscript_stores, raised_types)
from .. import sym
from ..sym import dotted

INIT = 'plot._LogicleTransform.__init__'


def init_precedence(cx):
    """Every assignment to T, M, W in the constructor happens under `if <that parameter> is None`
    (an explicit value, including 0, always wins) or inside such a block."""
    fn = Fn(cx, INIT)
    n = 0
    for p in ('T', 'M', 'W'):
        for st in fn.stmts(ast.Assign):
            if not (isinstance(st.targets[0], ast.Name) and st.targets[0].id == p):
                continue
            n += 1
            ok = any(isinstance(a, ast.If) and is_none_test(a.test, p) and fn.in_body_of(st, a, 'body')
                     for a in fn.ancestors(st))
            fn.ob('NULLDEFAULT', 'explicit %s is used as given; it is derived only when it is None' % p, ok, st,
                  detail='' if ok else '`%s` not under `if %s is None`' % (norm_stmt(st), p), key='explicit-' + p)
        blocks = [a for a in fn.stmts(ast.If) if is_none_test(a.test, p)]
        fn.ob('NULLDEFAULT', '%s has a derivation from data and a default without data' % p, len(blocks) == 2,
              blocks[0] if blocks else fn.ast, detail='%d `if %s is None` blocks' % (len(blocks), p), key='blocks-' + p)
    cx.floor('NULLDEFAULT', n, 8, 'assignments to T/M/W')
    return fn


def derivations(cx):
    fn = Fn(cx, INIT)
    # the data branch
    top = [st for st in fn.ast.body if isinstance(st, ast.If) and sym.norm(st.test) in (sym.norm('data is not None'), sym.norm('data is None'))]
    cx.need(len(top) == 1, INIT + ': no `if data is not None` block')
    top = top[0]
    # either orientation of the test (canonical form: the positive spelling `data is None` first)
    if sym.norm(top.test) == sym.norm('data is None'):
        data_branch, default_branch = top.orelse, top.body
    else:
        data_branch, default_branch = top.body, top.orelse
    # defaults without data
    dvals = {}
    for st in default_branch:
        if isinstance(st, ast.If):
            p = is_none_test(st.test)
            if p and len(st.body) == 1 and isinstance(st.body[0], ast.Assign):
                dvals[p] = sym.norm(st.body[0].value)
    ok = dvals == {'T': ('num', 262144), 'M': ('num', 4.5), 'W': ('num', 0.5)}
    fn.ob('FORMULA', 'defaults without data are T=262144, M=4.5, W=0.5', ok, top, detail=str({k: sym.show(v) for k, v in dvals.items()}),
          key='defaults')
    blocks = {is_none_test(st.test): st for st in data_branch if isinstance(st, ast.If) and is_none_test(st.test)}
    cx.need(set(blocks) >= {'T', 'M', 'W'}, INIT + ': derivation blocks for T/M/W not found')
    # order: T before M before W (M uses T, W uses M and T)
    ok = blocks['T'].lineno < blocks['M'].lineno < blocks['W'].lineno
    fn.ob('REACH', 'T is derived before M, and M before W', ok, blocks['M'], key='order')
    # M
    a = [s for s in blocks['M'].body if isinstance(s, ast.Assign)]
    ok = len(a) == 1 and sym.norm(a[0].value) == sym.norm('max(4.5, 4.5 * np.log10(T) / np.log10(262144))')
    fn.ob('FORMULA', 'M = max(4.5, 4.5*log10(T)/log10(262144))', ok, a[0] if a else blocks['M'],
          detail='' if ok else sym.show(sym.norm(a[0].value)) if a else '', key='M')

    def per_sample_channel(block, what):
        """the loop `for d in data` extracting y = d[:, channel] if d.ndim > 1 else d"""
        loops = [s for s in block.body if isinstance(s, ast.For)]
        if not (len(loops) == 1 and sym.norm(loops[0].iter) == ('var', 'data') and isinstance(loops[0].target, ast.Name)):
            raise AnalysisError(INIT + ': %s is not derived in a loop over the samples' % what)
        lp = loops[0]
        d = lp.target.id
        ex = [s for s in lp.body if isinstance(s, ast.If) and sym.norm(s.test) == sym.norm('%s.ndim > 1' % d)]
        ok = len(ex) == 1
        y = None
        if ok:
            asg = [s for s in ast.walk(ex[0]) if isinstance(s, ast.Assign) and isinstance(s.targets[0], ast.Name)
                   and not (isinstance(s.value, ast.Constant) and isinstance(s.value.value, str))]
            ys = {s.targets[0].id for s in asg}
            vals = sorted(sym.show(sym.norm(s.value)) for s in asg)
            ok = len(ys) == 1 and vals == sorted([sym.show(sym.norm('%s[:, channel]' % d)), sym.show(sym.norm(d))])
            y = list(ys)[0] if ys else None
            # multidimensional data without a channel is refused
            ok = ok and 'ValueError' in raised_types(ex[0].body)
        fn.ob('FORMULA', '%s: each sample contributes its chosen channel (the array itself when one-dimensional)' % what,
              ok, ex[0] if ex else lp, key='extract-' + what)
        return lp, d, y

    # T: maximum over samples of range(0)[1] (largest value when no range is known), starting from 0
    lp, d, y = per_sample_channel(blocks['T'], 'T')
    init = [s for s in blocks['T'].body if isinstance(s, ast.Assign) and s.lineno < lp.lineno]
    ok = len(init) == 1 and sym.norm(init[0].value) == ('num', 0)
    tis = [s for s in ast.walk(lp) if isinstance(s, ast.Assign) and isinstance(s.targets[0], ast.Name)
           and s.targets[0].id not in (y, 'T')
           and not (isinstance(s.value, ast.Constant) and isinstance(s.value.value, str))]
    vals = sorted(sym.show(sym.norm(s.value)) for s in tis)
    ti = {s.targets[0].id for s in tis}
    Ti = list(ti)[0] if ti else '?'
    wants = [sym.norm("%s.range(0)[1] if hasattr(%s, 'range') and hasattr(%s.range, '__call__') else np.max(%s)" % (y, y, y, y)),
             sym.norm("%s.range(0)[1] if hasattr(%s, 'range') and callable(%s.range) else np.max(%s)" % (y, y, y, y)),
             sym.norm("%s.range(0)[1] if hasattr(%s, 'range') else np.max(%s)" % (y, y, y))]
    ok2 = len(tis) == 1 and sym.norm(tis[0].value) in wants
    ok3 = ok2
    upd = [s for s in lp.body if isinstance(s, ast.If) and sym.norm(s.test) == sym.norm('%s > T' % Ti) and not s.orelse
           and len(s.body) == 1 and isinstance(s.body[0], ast.Assign) and sym.norm(s.body[0].targets[0]) == ('var', 'T')
           and sym.norm(s.body[0].value) == ('var', Ti)]
    upd2 = [s for s in lp.body if isinstance(s, ast.Assign) and isinstance(s.targets[0], ast.Name) and s.targets[0].id == 'T'
            and sym.norm(s.value) in (sym.norm('max(T, %s)' % Ti), sym.norm('max(%s, T)' % Ti))]
    ok4 = len(upd) + len(upd2) == 1 and not [s for s in ast.walk(lp) if isinstance(s, ast.Assign) and isinstance(s.targets[0], ast.Name)
                                               and s.targets[0].id == 'T' and s not in upd2 and not any(s is u.body[0] for u in upd)]
    fn.ob('FORMULA', 'T is the largest channel range over the samples (largest value when no range is known)',
          bool(ok and ok2 and ok3 and ok4), blocks['T'],
          detail='' if (ok and ok2 and ok3 and ok4) else 'init ok=%s candidates=%s cond ok=%s update ok=%s' % (ok, vals, ok3, ok4),
          key='T')
    # W: max(0, max over samples with negative events of (M - log10(T/|r|))/2), r the most negative event
    lp, d, y = per_sample_channel(blocks['W'], 'W')
    init = [s for s in blocks['W'].body if isinstance(s, ast.Assign) and s.lineno < lp.lineno]
    ok = len(init) == 1 and sym.norm(init[0].value) == ('num', 0)
    neg = [s for s in lp.body if isinstance(s, ast.If) and sym.norm(s.test) == sym.norm('np.any(%s < 0)' % y)]
    ok2 = len(neg) == 1
    ok3 = ok4 = False
    if ok2:
        Wi = sym.norm('(M - np.log10(T / abs(np.min(%s)))) / 2' % y)
        ups = [s for s in ast.walk(neg[0]) if isinstance(s, ast.Assign) and isinstance(s.targets[0], ast.Name) and s.targets[0].id == 'W']
        detail = 'no single update of W'
        if len(ups) == 1:
            u = ups[0]
            par = fn.parent.get(id(u))
            val = fn.nf(u.value, at=u, stop=('W', 'M', 'T', y))
            if isinstance(par, ast.If) and par is not neg[0] and not par.orelse and len(par.body) == 1:
                t = fn.nf(par.test, at=par, stop=('W', 'M', 'T', y))
                ok3 = val == Wi and t == sym.mk_cmp('Gt', Wi, ('var', 'W'))
            else:
                ok3 = val in (sym.norm('max(W, WI)', env={'WI': Wi}),)
            detail = sym.show(val)
    else:
        detail = 'no `if np.any(y < 0)` block'
    okw = bool(ok and ok2 and ok3)
    # every sample is examined: the statements of the two derivations run under the recorded conditions only
    # (no sample is skipped on account of its range, its type, ...)
    if ok2:
        fn.ctx_ob('FORMULA', 'W: negative events are looked for in every sample', neg[0])
        if len(ups) == 1:
            fn.ctx_ob('FORMULA', 'W: update from the most negative event', ups[0])
    if len(tis) == 1:
        fn.ctx_ob('FORMULA', 'T: candidate of every sample', tis[0])
    for u_ in upd + upd2:
        fn.ctx_ob('FORMULA', 'T: update', u_)
    fn.ob('FORMULA', 'W = (M - log10(T/|r|))/2 for the most negative event r, maximised over samples, never below 0', okw,
          blocks['W'], detail='' if okw else detail, key='W')
    return fn


def refusals(cx):
    fn = Fn(cx, INIT)
    stores = {a.targets[0].attr: a for a in fn.stmts(ast.Assign)
              if isinstance(a.targets[0], ast.Attribute) and dotted(a.targets[0].value) == 'self'}
    cx.need({'_T', '_M', '_W', '_p'} <= set(stores), INIT + ': parameter stores _T/_M/_W/_p not found')
    for p, test in (('T', 'T <= 0'), ('M', 'M <= 0'), ('W', 'W < 0')):
        gs = guards(fn, mentions=lambda t, p=p: names_in(t) == {p}, exc=['ValueError'])
        ok = len(gs) == 1 and not gs[0][1] and sym.norm(gs[0][0].test) == sym.norm(test) \
            and all(guard_dominates(fn, gs[0][0], False, stores[k]) for k in stores)
        roots = fn.calls('scipy.optimize.root')
        ok = ok and all(guard_dominates(fn, gs[0][0], False, r) for r in roots) if gs else False
        fn.ob('GUARD', 'invalid %s (%s) refused before anything is stored or solved' % (p, test), ok,
              gs[0][0] if gs else fn.ast, key='refuse-' + p)
    # stores take the validated locals
    for k in ('_T', '_M', '_W'):
        ok = sym.norm(stores[k].value) == ('var', k[1:])
        fn.ob('REACH', 'stored %s is the validated parameter' % k[1:], ok, stores[k], key='store-' + k)
    # p solves W = 2 p log10(p)/(p+1)
    roots = fn.calls('scipy.optimize.root')
    cx.need(len(roots) == 1, INIT + ': expected one root finding call')
    r = roots[0]
    # the function handed to the solver (a nested def / lambda, helper calls applied): (p, W) -> 2p/(p+1)*log10(p) - W
    f0 = r.args[0] if r.args else kwarg(r, 'fun')
    ok = f0 is not None
    if ok:
        got = sym.Normalizer(resolver=fn.resolver(r, only_lambdas=True)).n(f0)
        want = sym.norm('lambda p, W: 2*p/(p + 1)*np.log10(p) - W')
        ok = got == want
        targ = kwarg(r, 'args')
        ok = ok and targ is not None and sym.norm(targ) in (('var', 'W'), ('tuple', ('var', 'W')))
    fn.ob('FORMULA', 'p is the root of 2p*log10(p)/(p+1) - W', ok, r, detail='' if ok else norm_stmt(r), key='p-root')
    x0 = kwarg(r, 'x0', 1)
    ok = x0 is not None and fn.nf(x0, at=r, stop=('W',)) == sym.norm('10**(W/2.)')
    fn.ob('FORMULA', 'root finding starts from the asymptotic estimate 10**(W/2)', ok, r, key='p0')
    ok = sym.norm(stores['_p'].value) == sym.norm('%s.x[0]' % dotted(fn.parent[id(r)].targets[0])) \
        if isinstance(fn.parent.get(id(r)), ast.Assign) else False
    fn.ob('REACH', 'stored p is the solver\'s solution', ok, stores['_p'], key='store-p')
    asserts = fn.stmts(ast.Assert)
    fn.ob('GUARD', 'a failed root search is not silently accepted', len(asserts) >= 1 and
          any('success' in ast.unparse(a.test) for a in asserts), asserts[0] if asserts else r, key='assert-success')
    return fn


def biexponential(cx):
    fn = Fn(cx, 'plot._LogicleTransform.transform_non_affine')
    rets = fn.stmts(ast.Return)
    cx.need(len(rets) == 1, 'transform_non_affine: expected one return')
    s = fn.params[1]
    got = fn.nf(rets[0].value, at=rets[0])
    want = sym.norm('self._T * 10**(-(self._M - self._W)) * (10**(S - self._W) - (self._p**2)*10**(-(S - self._W)/self._p) + self._p**2 - 1)',
                    env={'S': ('var', s)})
    ok = got == want
    fn.ob('FORMULA', 'x = T*10^-(M-W) * (10^(s-W) - p^2*10^(-(s-W)/p) + p^2 - 1)', ok, rets[0],
          detail='' if ok else 'computes %s' % sym.show(got), key='biexponential')
    return fn


def inverse(cx):
    # the three ways an inverse over [0, M] is built
    fn = Fn(cx, 'plot._LogicleTransform.inverted')
    rets = fn.stmts(ast.Return)
    ok = len(rets) == 1 and len(fn.ast.body) <= 2 and \
        sym.norm(rets[0].value) in (sym.norm('_InterpolatedInverseTransform(transform=self, smin=0, smax=self._M)'),
                                    sym.norm('_InterpolatedInverseTransform(transform=self, smin=0, smax=self.M)'))
    fn.ob('SIB', 'inverted() tabulates this very transform over the display range [0, M]', ok, rets[0] if rets else fn.ast,
          detail='' if ok else norm_stmt(rets[0]) if rets else '', key='inverted')
    fn2 = Fn(cx, 'plot._LogicleScale.get_transform')
    rets = fn2.stmts(ast.Return)
    ok = len(rets) == 1 and sym.norm(rets[0].value) in (
        sym.norm('_InterpolatedInverseTransform(transform=self._transform, smin=0, smax=self._transform._M)'),
        sym.norm('_InterpolatedInverseTransform(transform=self._transform, smin=0, smax=self._transform.M)'))
    fn2.ob('SIB', 'the axis scale tabulates its transform over [0, M]', ok, rets[0] if rets else fn2.ast, key='scale')
    fn3 = Fn(cx, 'plot.scatter3d')
    calls = fn3.calls('_InterpolatedInverseTransform')
    n = 0
    for c in calls:
        t = dotted(c.args[0]) if c.args else dotted(kwarg(c, 'transform'))
        ok = t is not None and sym.norm(c) in (sym.norm('_InterpolatedInverseTransform(%s, 0, %s.M)' % (t, t)),
                                               sym.norm('_InterpolatedInverseTransform(transform=%s, smin=0, smax=%s.M)' % (t, t)))
        fn3.ob('SIB', 'scatter3d tabulates each axis transform over [0, M]', ok, c, key='scatter3d-%d' % n)
        n += 1
    cx.floor('SIB', n, 3, 'inverse constructions in scatter3d')
    # the tabulated inverse itself
    ini = Fn(cx, 'plot._InterpolatedInverseTransform.__init__')
    stores = {a.targets[0].attr: a for a in ini.stmts(ast.Assign)
              if isinstance(a.targets[0], ast.Attribute) and dotted(a.targets[0].value) == 'self'}
    want = {'_transform': 'transform', '_s_range': 'np.linspace(smin, smax, resolution)',
            '_x_range': 'transform.transform_non_affine(self._s_range)',
            '_xmin': 'transform.transform_non_affine(smin)', '_xmax': 'transform.transform_non_affine(smax)'}
    for k, w in want.items():
        ok = k in stores and sym.norm(stores[k].value) == sym.norm(w)
        ini.ob('FORMULA', 'inverse table: %s = %s' % (k, w), ok, stores.get(k, ini.ast), key='table-' + k)
    d = ini.default_of('resolution')
    ok = d is not None and isinstance(sym.norm(d)[1], int) and sym.norm(d)[1] >= 1000
    ini.ob('FORMULA', 'the table has at least 1000 points by default (accuracy of the inverse)', ok, d or ini.ast, key='resolution')
    tn = Fn(cx, 'plot._InterpolatedInverseTransform.transform_non_affine')
    rets = tn.stmts(ast.Return)
    x = tn.params[1]
    ok = len(rets) == 1
    if ok:
        got = sym.norm(rets[0].value)
        xm = None
        for st in tn.stmts(ast.Assign):
            if isinstance(st.value, ast.IfExp) and isinstance(st.targets[0], ast.Name):
                xm = st.targets[0].id
                ok = ok and sym.norm(st.value) == sym.norm(
                    'np.ma.masked_where((%s < self._xmin) | (%s > self._xmax), %s) if mask_out_of_range else %s' % (x, x, x, x))
        ok = ok and xm is not None and got == sym.norm('np.interp(%s, self._x_range, self._s_range)' % xm)
        dm = tn.default_of('mask_out_of_range')
        ok = ok and isinstance(dm, ast.Constant) and dm.value is True
    tn.ob('FORMULA', 'inverse = interpolation of the table, values outside [x(0), x(M)] masked by default', ok,
          rets[0] if rets else tn.ast, key='interp')
    iv = Fn(cx, 'plot._InterpolatedInverseTransform.inverted')
    rets = iv.stmts(ast.Return)
    ok = len(rets) == 1 and sym.norm(rets[0].value) == sym.norm('self._transform')
    iv.ob('SIB', 'the inverse of the inverse is the original transform object', ok, rets[0] if rets else iv.ast, key='inv-inv')


def run(cx):
    from ..rules import exits_of
    exits_of(cx, 'EXITS', ['plot._LogicleTransform.__init__', 'plot._LogicleTransform.transform_non_affine',
                           'plot._InterpolatedInverseTransform.__init__', 'plot._InterpolatedInverseTransform.transform_non_affine'])
    init_precedence(cx)
    derivations(cx)
    refusals(cx)
    biexponential(cx)
    inverse(cx)
    # the read-only properties hand out the stored parameters
    for p in ('T', 'M', 'W'):
        fn = Fn(cx, 'plot._LogicleTransform.' + p)
        rets = fn.stmts(ast.Return)
        ok = len(rets) == 1 and sym.norm(rets[0].value) == sym.norm('self._' + p)
        fn.ob('REACH', 'property %s returns the stored parameter' % p, ok, rets[0] if rets else fn.ast, key='prop-' + p)
    # transform object state is written only by the constructor
    mod, cls = cx.repo.cls('plot._LogicleTransform')
    for f in cls.body:
        if isinstance(f, ast.FunctionDef) and f.name != '__init__':
            for n in ast.walk(f):
                if isinstance(n, (ast.Assign, ast.AugAssign)):
                    tg = n.targets if isinstance(n, ast.Assign) else [n.target]
                    for t in tg:
                        bad = isinstance(t, ast.Attribute) and dotted(t.value) == 'self'
                        if bad:
                            cx.ob('MUT', 'a transform is immutable after construction', False, mod, n,
                                  'plot._LogicleTransform.' + f.name, key='immutable')
    cx.ob('MUT', 'a transform is immutable after construction', True, mod, cls, 'plot._LogicleTransform', key='immutable-ok')
    cx.decided += [
        'non-positive T or M and negative W are refused before anything is stored or solved',
        'explicit T/M/W (including 0) win; derived only under `is None`',
        'M = max(4.5, 4.5*log10(T)/log10(262144)); W = max over samples of (M - log10(T/|r|))/2 from 0; T = largest range (value)',
        'p solves W = 2p*log10(p)/(p+1); x(s) has the published biexponential normal form',
        'every construction of the tabulated inverse is over [0, M] of its own transform; table and masking have the documented form',
    ]
    cx.not_decided += ['strict monotonicity, x(W)=0, inverse accuracy 1e-4*M, convergence of the root finder: numerical facts',
                       'that the biexponential is a bijection (real analysis, not code shape)']
