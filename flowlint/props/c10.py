"""C10 - Excel results equal the documented library steps applied by hand."""
from . import excel_rules as E


def run(cx):
    E.samples_pipeline(cx)
    E.units_dispatch(cx)
    E.fault_table(cx)          # the settings checks of the MEF branch decide whether a row is processed at all
    E.beads_pipeline(cx)
    E.stats_table(cx)
    E.histograms_table(cx)
    E.error_rows_rendered(cx, 'excel_ui.add_samples_stats', 'samples')
    cx.floor('PIPE', cx.rules.get('PIPE', 0), 35, 'pipeline stage obligations')
    cx.floor('TABLE', cx.rules.get('TABLE', 0), 35, 'statistics/histogram table obligations')
    cx.decided += [
        'the per-row orchestration of cell samples is the documented composition: load, scatter to RFI, per-channel unit dispatch, start_end(250, 100), high_low on scatter+reported channels for integer data, density2d on the scatter channels at the row\'s fraction; each stage consumes the previous stage\'s output, is unconditional (apart from the documented conditions) and nothing else replaces the sample',
        'units dispatch: one lower-cased string, exactly channel/rfi/a.u./au/mef, raising else; each unit maps to the documented calls; channels reported only after conversion',
        'beads rows: load, RFI on scatter+fluorescence channels, trim, de-saturate scatter, density gate (sigma 5), calibration call with the row\'s values and channels',
        'statistics columns <-> FlowCal.stats functions bijection; geometric ones on the strictly positive events with a note; event count and acquisition time from the gated sample',
        'histogram rows: counts of the gated events over every other point of hist_bins(channel, 2*min(resolution, max_bins), scale), scale linear iff units are Channel',
    ]
    cx.not_decided += ['equality of numbers is inherited from the library functions being pure (C13) and correct (C03-C09, C12, C19)',
                       'that histogram counts sum to the in-range events (NumPy)']
