"""C17 - acquisition metadata reflects the file's keywords and never blocks loading.

OPTEXC: every conversion of an optional keyword value that may raise sits in a try that catches
what it may raise, and the handler clears the very value it failed to convert.
TAGS: None/type-tag abstract interpretation of acquisition_time.
TABLE: keyword templates, vendor fallbacks and derived-value formulas (statement inventory)."""
import ast

from ..core import AnalysisError, norm_stmt
from ..rules import (Fn, guards, guard_dominates, names_in, strings_in, kwarg, is_none_test, inventory,
                     enclosing_tries, handler_catches, handler_types, always_raises, raised_types, if_chain, block_of)
from ..cfg import target_names, root_name
from .. import sym
from ..sym import dotted
from . import io_rules

NEW = 'io.FCSData.__new__'
OPTIONAL = {'$TIMESTEP', 'TIMETICKS', '$BTIM', '$ETIM', '$DATE', '$P{}V', '$P{}G', '$P{}S', 'CREATOR', 'BD$WORD{}',
            'CytekP{:02d}G', '$P{}N'}
MAY_RAISE_CALLS = {'float': {'ValueError'}, 'int': {'ValueError'}, 'datetime.datetime.strptime': {'ValueError'},
                   'datetime.strptime': {'ValueError'}, 'time.strptime': {'ValueError'}}
SAFE_METHODS = {'split', 'replace', 'strip', 'lower', 'upper', 'rstrip', 'lstrip', 'join', 'startswith', 'endswith', 'format',
                'time', 'date', 'get', 'append', 'combine'}


# ---------------------------------------------------------------------------
# OPTEXC

def tainted_names(fn, seeds):
    """Names whose value derives from a tainted expression (flow-insensitive closure)."""
    t = set(seeds)
    changed = True
    while changed:
        changed = False
        for st in fn.stmts((ast.Assign, ast.AugAssign)):
            val = st.value
            if _mentions_taint(val, t):
                tg = st.targets if isinstance(st, ast.Assign) else [st.target]
                for x in tg:
                    for nm in target_names(x) + ([root_name(x)] if isinstance(x, (ast.Subscript, ast.Attribute)) else []):
                        if nm and nm not in t:
                            t.add(nm)
                            changed = True
        for c in fn.walk(into_nested=True):
            if isinstance(c, ast.comprehension) and _mentions_taint(c.iter, t):
                for nm in target_names(c.target):
                    if nm not in t:
                        t.add(nm)
                        changed = True
    return t


def taint_sources(fn, seeds):
    """name -> set of keyword templates its value may derive from ('?' for function arguments)."""
    src = {s: {'?'} for s in seeds}

    def of(e):
        out = set()
        for n in ast.walk(e):
            if isinstance(n, ast.Name) and n.id in src:
                out |= src[n.id]
            if _is_source(n):
                key = n.args[0] if isinstance(n, ast.Call) else n.slice
                out.add(io_rules.key_template(key)[0] or '?')
        return out
    changed = True
    while changed:
        changed = False
        pairs = []
        for st in fn.stmts((ast.Assign, ast.AugAssign)):
            tg = st.targets if isinstance(st, ast.Assign) else [st.target]
            for x in tg:
                for nm in target_names(x) + ([root_name(x)] if isinstance(x, (ast.Subscript, ast.Attribute)) else []):
                    if nm:
                        pairs.append((nm, st.value))
        for c in fn.walk(into_nested=True):
            if isinstance(c, ast.comprehension):
                for nm in target_names(c.target):
                    pairs.append((nm, c.iter))
        for nm, val in pairs:
            s = of(val)
            if s - src.get(nm, set()):
                src.setdefault(nm, set()).update(s)
                changed = True
    return src, of


def _is_source(e):
    if isinstance(e, ast.Call) and isinstance(e.func, ast.Attribute) and e.func.attr == 'get' \
            and (dotted(e.func.value) or '').endswith('.text'):
        return True
    if isinstance(e, ast.Subscript) and (dotted(e.value) or '').endswith('.text'):
        return True
    return False


def _mentions_taint(e, t):
    for n in ast.walk(e):
        if isinstance(n, ast.Name) and n.id in t:
            return True
        if _is_source(n):
            return True
    return False


def optexc(cx, qual, seeds, nonnull=()):
    fn = Fn(cx, qual)
    t = tainted_names(fn, seeds)
    srcmap, sources_of = taint_sources(fn, seeds)

    def required_only(e):
        ks = {k.replace('{0}', '{}') for k in sources_of(e)}
        return bool(ks) and '?' not in ks and not (ks & OPTIONAL)
    n = 0
    for c in fn.walk(into_nested=True):
        exc = None
        what = None
        if isinstance(c, ast.Call):
            d = fn.callee(c)
            if d in MAY_RAISE_CALLS and c.args and _mentions_taint(c.args[0], t):
                exc = set(MAY_RAISE_CALLS[d])
                what = '%s(...) of a keyword value' % d
                # required keywords are not covered by the property
                if required_only(c.args[0]):
                    cx.count('conversions_of_required_keywords')
                    continue
        elif isinstance(c, ast.Subscript) and isinstance(c.ctx, ast.Load) and isinstance(c.value, ast.Name) and c.value.id in t \
                and isinstance(c.slice, ast.Constant) and isinstance(c.slice.value, int):
            # constant index into a split keyword value: IndexError unless a length test dominates
            lens = [g for g in fn.stmts(ast.If) if isinstance(g.test, ast.Compare) and isinstance(g.test.left, ast.Call)
                    and dotted(g.test.left.func) == 'len' and dotted(g.test.left.args[0]) == c.value.id
                    and isinstance(g.test.ops[0], ast.Eq) and isinstance(g.test.comparators[0], ast.Constant)
                    and g.test.comparators[0].value > c.slice.value]
            if any(fn.in_body_of(fn.cfg.stmt_of(c), g, 'body') for g in lens):
                continue
            exc = {'IndexError'}
            what = 'constant index into a keyword value'
            # values that come from a required keyword ($PnE) are out of scope
            if required_only(c.value):
                cx.count('conversions_of_required_keywords')
                continue
        if exc is None:
            continue
        n += 1
        st = fn.cfg.stmt_of(c)
        tries = enclosing_tries(fn, st)
        caught_all = True
        handler = None
        for e in exc:
            h = None
            for tr in tries:
                for hh in tr.handlers:
                    if handler_catches(hh, e):
                        h = hh
                        break
                if h:
                    break
            if h is None:
                caught_all = False
            handler = handler or h
        fn.ob('OPTEXC', '%s is inside a try that catches %s' % (what, '/'.join(sorted(exc))), caught_all, c,
              detail='' if caught_all else 'an ill-formed value raises %s while loading' % '/'.join(sorted(exc)),
              key='caught|' + norm_stmt(c))
        if caught_all and handler is not None:
            # the handler must not re-raise and must clear the value that failed to convert
            tr = [x for x in tries if handler in x.handlers][0]
            assigned = set()
            for s in tr.body:
                for a in ast.walk(s):
                    if isinstance(a, ast.Assign):
                        for x in a.targets:
                            assigned.update(target_names(x))
                            if isinstance(x, (ast.Subscript, ast.Attribute)) and root_name(x):
                                pass
                    elif isinstance(a, ast.Return):
                        assigned.add('<return>')
            hb = handler.body
            re_raise = any(isinstance(x, ast.Raise) for s in hb for x in ast.walk(s))
            cleared = set()
            passes = all(isinstance(s, ast.Pass) for s in hb)
            for s in hb:
                if isinstance(s, ast.Assign) and isinstance(s.value, ast.Constant) and s.value.value is None:
                    cleared.update(target_names(s.targets[0]))
            results = {a for a in assigned if a != '<return>' and a in _live_after(fn, tr, assigned)}
            if '<return>' in assigned and passes:
                okh = True             # try: return parse(...) / except: pass  -> falls through to the next attempt
            else:
                okh = not re_raise and results <= cleared and bool(cleared & assigned or not results)
            fn.ob('OPTEXC', 'the handler makes the value that failed to convert absent (None), without re-raising', okh, handler,
                  detail='' if okh else 'try assigns %s, handler clears %s' % (sorted(results), sorted(cleared)),
                  key='handler|' + norm_stmt(c))
    return fn, n


def _live_after(fn, tr, names):
    """Of `names`, those read after the try statement (its result variables)."""
    out = set()
    node_after = False
    end = tr.end_lineno
    for n in fn.walk():
        if isinstance(n, ast.Name) and isinstance(n.ctx, ast.Load) and n.id in names and n.lineno > end:
            out.add(n.id)
    return out


def nonnull_discipline(cx, qual):
    """Method calls / membership tests on a value returned by text.get() (possibly None) are
    protected: `K in text and ... text.get(K)` in one and-chain, or an `is not None`/`is None` guard."""
    fn = Fn(cx, qual)
    n = 0
    for c in fn.walk(into_nested=True):
        if not (isinstance(c, ast.Call) and isinstance(c.func, ast.Attribute) and c.func.attr == 'get'
                and (dotted(c.func.value) or '').endswith('.text') and len(c.args) == 1):
            continue
        par = fn.parent.get(id(c))
        used_unsafely = False
        how = ''
        if isinstance(par, ast.Compare) and any(x is c for x in par.comparators) and isinstance(par.ops[0], (ast.In, ast.NotIn)):
            used_unsafely, how = True, 'membership test in a possibly missing keyword'
        elif isinstance(par, ast.Attribute) and par.value is c:
            used_unsafely, how = True, 'method call on a possibly missing keyword'
        elif isinstance(par, ast.Call) and dotted(par.func) in ('float', 'int') and par.args and par.args[0] is c:
            used_unsafely, how = True, '%s() of a possibly missing keyword' % dotted(par.func)
        if not used_unsafely:
            continue
        k = sym.norm(c.args[0])
        ktpl, _ = io_rules.key_template(c.args[0])
        if ktpl is not None and ktpl not in OPTIONAL:
            cx.count('unguarded_get_of_required_keyword')
            continue
        n += 1
        ok = False
        # and-chain with an earlier `K in text`
        cur = par
        while cur is not None and not isinstance(cur, ast.stmt):
            if isinstance(cur, ast.BoolOp) and isinstance(cur.op, ast.And):
                for v in cur.values:
                    if any(x is c for x in ast.walk(v)):
                        break
                    if isinstance(v, ast.Compare) and isinstance(v.ops[0], ast.In) and sym.norm(v.left) == k \
                            and (dotted(v.comparators[0]) or '').endswith('.text'):
                        ok = True
            cur = fn.parent.get(id(cur))
        fn.ob('OPTEXC', '%s is protected by a presence test of the same keyword' % how, ok, c,
              detail='' if ok else 'a file without this keyword raises while loading', key='nonnull|' + norm_stmt(c))
    return n


# ---------------------------------------------------------------------------
# TAGS: acquisition_time

START, END, STEP = 'self._acquisition_start_time', 'self._acquisition_end_time', 'self.time_step'
ATTR_TAGS = {START: {'None', 'time', 'datetime'}, END: {'None', 'time', 'datetime'}, STEP: {'None', 'float'},
             'self._time_step': {'None', 'float'}}


class Tags(object):
    def __init__(self, fn):
        self.fn = fn
        self.findings = []
        self.ops = 0

    def key(self, e):
        d = dotted(e)
        return d

    def tags(self, e, env):
        k = self.key(e)
        if k in env:
            return set(env[k])
        if k in ATTR_TAGS:
            return set(ATTR_TAGS[k])
        if isinstance(e, ast.Constant):
            return {'None'} if e.value is None else {'number' if isinstance(e.value, (int, float)) else 'str'}
        if isinstance(e, ast.Call):
            d = dotted(e.func) or ''
            if d.endswith('datetime.combine'):
                return {'datetime'}
            if d.endswith('total_seconds'):
                return {'float'}
            return {'other'}
        if isinstance(e, ast.BinOp):
            l, r = self.tags(e.left, env), self.tags(e.right, env)
            self.check(e, l, r)
            if isinstance(e.op, ast.Sub) and l <= {'datetime'} and r <= {'datetime'}:
                return {'timedelta'}
            return {'number'}
        if isinstance(e, ast.Subscript):
            return {'number'}
        return {'other'}

    def check(self, e, l, r):
        self.ops += 1
        bad = None
        if 'None' in l or 'None' in r:
            bad = 'an operand may be None'
        elif isinstance(e.op, ast.Sub) and ('time' in l or 'time' in r):
            bad = 'datetime.time objects cannot be subtracted'
        self.findings.append((e, bad))

    def narrow(self, test, env, truth):
        """Return env narrowed by `test` being `truth`."""
        env = dict(env)
        if isinstance(test, ast.BoolOp):
            if (isinstance(test.op, ast.And) and truth) or (isinstance(test.op, ast.Or) and not truth):
                for v in test.values:
                    env = self.narrow(v, env, truth)
            return env
        if isinstance(test, ast.UnaryOp) and isinstance(test.op, ast.Not):
            return self.narrow(test.operand, env, not truth)
        if isinstance(test, ast.Compare) and len(test.ops) == 1 and isinstance(test.ops[0], (ast.Is, ast.IsNot)) \
                and isinstance(test.comparators[0], ast.Constant) and test.comparators[0].value is None:
            k = self.key(test.left)
            if k:
                cur = self.tags(test.left, env)
                is_none = isinstance(test.ops[0], ast.Is) == truth
                env[k] = (cur & {'None'}) if is_none else (cur - {'None'})
            return env
        if isinstance(test, ast.Call) and dotted(test.func) == 'isinstance' and len(test.args) == 2:
            k = self.key(test.args[0])
            t = (dotted(test.args[1]) or '').split('.')[-1]
            if k and t in ('datetime', 'time'):
                cur = self.tags(test.args[0], env)
                env[k] = (cur & {t}) if truth else (cur - {t})
            return env
        return env

    def run(self, stmts, env):
        """Returns env after the block, or None if the block always leaves the function."""
        for st in stmts:
            if isinstance(st, ast.Expr):
                self.visit_expr(st.value, env)
            elif isinstance(st, ast.Assign):
                self.visit_expr(st.value, env)
                for t in st.targets:
                    k = self.key(t)
                    if k:
                        env[k] = self.tags(st.value, env)
            elif isinstance(st, ast.If):
                self.visit_expr(st.test, env)
                e1 = self.run(st.body, self.narrow(st.test, env, True))
                e2 = self.run(st.orelse, self.narrow(st.test, env, False))
                if e1 is None and e2 is None:
                    return None
                if e1 is None:
                    env = e2
                elif e2 is None:
                    env = e1
                else:
                    env = {k: set(e1.get(k, ATTR_TAGS.get(k, {'other'}))) | set(e2.get(k, ATTR_TAGS.get(k, {'other'})))
                           for k in set(e1) | set(e2)}
            elif isinstance(st, ast.Return):
                if st.value is not None:
                    self.visit_expr(st.value, env)
                return None
            elif isinstance(st, ast.Raise):
                return None
            else:
                raise AnalysisError('TAGS: unhandled statement `%s`' % norm_stmt(st))
        return env

    def visit_expr(self, e, env):
        # and-chains narrow left to right
        if isinstance(e, ast.BoolOp) and isinstance(e.op, ast.And):
            cur = env
            for v in e.values:
                self.visit_expr(v, cur)
                cur = self.narrow(v, cur, True)
            return
        for sub in ast.iter_child_nodes(e):
            if isinstance(sub, ast.expr):
                self.visit_expr(sub, env)
        if isinstance(e, ast.BinOp):
            self.tags(e, env)


def acquisition_time(cx):
    fn = Fn(cx, 'io.FCSData.acquisition_time')
    # the time_step property must be the stored attribute for the tag table to apply
    ts = Fn(cx, 'io.FCSData.time_step')
    r = ts.stmts(ast.Return)
    cx.need(len(r) == 1 and sym.norm(r[0].value) == sym.norm('self._time_step'), 'FCSData.time_step is not the stored attribute')
    T = Tags(fn)
    body = [s for s in fn.ast.body if not (isinstance(s, ast.Expr) and isinstance(s.value, ast.Constant))]
    T.run(body, {})
    seen = set()
    nops = 0
    for e, bad in T.findings:
        k = norm_stmt(e)
        if (k, bad) in seen:
            continue
        seen.add((k, bad))
        nops += 1
        fn.ob('TAGS', 'arithmetic on acquisition attributes has operands of supported types on every path', bad is None, e,
              detail='' if bad is None else '`%s`: %s' % (k, bad), key='op|' + k)
    cx.floor('TAGS', nops, 3, 'arithmetic operations in acquisition_time')
    # precedence chain: >1 time channels -> KeyError; one channel and a time step; start and end; else None
    # (the conditions under which each `return` runs - channel and time step first, then start and end times, else
    #  None - are the recorded return contexts of this function, CONTEXT above, whatever the spelling of the chain;
    #  here: the refusal of several time channels and the final None)
    idx = None
    for st in body:
        if isinstance(st, ast.Assign) and isinstance(st.value, ast.ListComp):
            idx = st.targets[0].id
    from ..rules import guards as _guards
    gk = [g for g, p in _guards(fn, exc=['KeyError']) if not p and idx is not None and sym.norm(g.test) == sym.norm('len(%s) > 1' % idx)]
    rn = [r for r in fn.stmts(ast.Return) if r.value is None or sym.norm(r.value) == ('const', None)]
    ok = len(gk) == 1 and len(rn) >= 1
    fn.ob('TAGS', 'duration precedence is one chain: two time channels -> KeyError; time channel and time step; start and end times; else None',
          ok, gk[0] if gk else fn.ast, key='precedence')
    inventory(fn, 'FORMULA', [
        ('time channels are found by case-insensitive name', "IDX = [I for I, CH in enumerate(self.channels) if CH.lower() == 'time']"),
        ('the time channel is addressed by its name', 'TC = self.channels[IDX[0]]'),
        ('duration from the time channel = (last - first) * time step', 'return (self[-1, TC] - self[0, TC]) * self.time_step'),
        ('duration from start/end = seconds of (end - start)', 'return (ET - ST).total_seconds()'),
    ], ['IDX', 'I', 'CH', 'TC', 'ET', 'ST'])
    return fn


# ---------------------------------------------------------------------------
# TABLE: keyword templates and derived values in __new__

NEW_ITEMS = [
    ('time step from $TIMESTEP (priority), else from the legacy TIMETICKS keyword in milliseconds, else absent',
     "TS = float(F.text['$TIMESTEP']) if '$TIMESTEP' in F.text else (float(F.text['TIMETICKS']) / 1000.0 if 'TIMETICKS' in F.text else None)"),
    ('data type is $DATATYPE', "DTYPE = F.text.get('$DATATYPE')"),
    ('date from $DATE', "ADATE = cls._parse_date_string(F.text.get('$DATE'))"),
    ('start time from $BTIM', "ASTART = cls._parse_time_string(F.text.get('$BTIM'))"),
    ('end time from $ETIM', "AEND = cls._parse_time_string(F.text.get('$ETIM'))"),
    ('start time combined with the date', 'ASTART = datetime.datetime.combine(ADATE, ASTART)'),
    ('end time combined with the date', 'AEND = datetime.datetime.combine(ADATE, AEND)'),
    ('... only when a date exists', 'if ADATE is not None:'),
    ('... and a start time exists', 'if ASTART is not None:'),
    ('... and an end time exists', 'if AEND is not None:'),
    ('channel count is $PAR', "NCH = int(F.text['$PAR'])"),
    ('channel names from $PnN for n = 1..$PAR', "CHS = [F.text.get('$P{}N'.format(I1)) for I1 in range(1, NCH + 1)]"),
    ('channel names kept as a tuple', 'CHS = tuple(CHS)'),
    ('declared range R from $PnR', "PNR = float(F.text.get('$P{}R'.format(CI + 1)))"),
    ('range is [0, R-1]', 'RNG.append([0.0, PNR - 1])'),
    ('resolution is R', 'RES.append(int(PNR))'),
    ('detector voltage from $PnV', "CDV = F.text.get('$P{}V'.format(I2))"),
    ('CellQuest Pro fallback: BD$WORD(12+n), only when $PnV is absent',
     "if CDV is None and 'CREATOR' in F.text and ('CellQuest Pro' in F.text.get('CREATOR')):"),
    ('CellQuest Pro fallback keyword', "CDV = F.text.get('BD$WORD{}'.format(12 + I2))"),
    ('voltage converted to float', 'CDV = float(CDV)'),
    ('voltage list in channel order', 'DV.append(CDV)'),
    ('amplifier gain from $PnG', "CAG = F.text.get('$P{}G'.format(I3))"),
    ('FlowJo Collector\'s Edition fallback: CytekPnnG, only when $PnG is absent',
     "if CAG is None and 'CREATOR' in F.text and ('FlowJoCollectorsEdition' in F.text.get('CREATOR')):"),
    ('FlowJo fallback keyword', "CAG = F.text.get('CytekP{:02d}G'.format(I3))"),
    ('gain converted to float', 'CAG = float(CAG)'),
    ('gain list in channel order', 'AG.append(CAG)'),
    ('labels from $PnS for n = 1..$PAR, in channel order', "LBL = [F.text.get('$P{}S'.format(I4), None) for I4 in range(1, NCH + 1)]"),
    ('stored: file', 'OBJ._infile = infile'),
    ('stored: amplification types', 'OBJ._amplification_type = AMP'),
    ('stored: text', 'OBJ._text = F.text'),
    ('stored: analysis', 'OBJ._analysis = F.analysis'),
    ('stored: data type', 'OBJ._data_type = DTYPE'),
    ('stored: time step', 'OBJ._time_step = TS'),
    ('stored: start time', 'OBJ._acquisition_start_time = ASTART'),
    ('stored: end time', 'OBJ._acquisition_end_time = AEND'),
    ('stored: channel names', 'OBJ._channels = CHS'),
    ('stored: detector voltages', 'OBJ._detector_voltage = DV'),
    ('stored: amplifier gains', 'OBJ._amplifier_gain = AG'),
    ('stored: labels', 'OBJ._channel_labels = LBL'),
    ('stored: ranges', 'OBJ._range = RNG'),
    ('stored: resolutions', 'OBJ._resolution = RES'),
]
NEW_METAS = {m: m for m in ['F', 'TS', 'DTYPE', 'ADATE', 'ASTART', 'AEND', 'NCH', 'CHS', 'PNR', 'CI', 'RNG', 'RES', 'CDV', 'DV',
                            'CAG', 'AG', 'LBL', 'OBJ', 'AMP']}
for _i in ('I1', 'I2', 'I3', 'I4'):
    NEW_METAS[_i] = 'I'


def new_table(cx):
    fn = Fn(cx, NEW)
    b = inventory(fn, 'TABLE', NEW_ITEMS, NEW_METAS)
    # every per-channel loop covers parameters 1..$PAR
    nch = b.get('NCH')
    if nch:
        loops = [f for f in fn.stmts(ast.For) if 'range' in ast.unparse(f.iter)]
        bad = [f for f in loops if sym.norm(f.iter) != sym.norm('range(1, %s + 1)' % nch[1])]
        fn.ob('TABLE', 'every per-channel loop runs over parameters 1..$PAR', not bad and len(loops) >= 3, bad[0] if bad else fn.ast,
              detail='' if not bad else norm_stmt(bad[0]), key='loops')
    # tuples
    for m in ('DV', 'AG', 'LBL', 'RES'):
        if m in b:
            v = b[m][1]
            ok = any(sym.stmt_nf(s) == sym.parse_pattern('%s = tuple(%s)' % (v, v)) for s in fn.stmts(ast.Assign))
            site = [s for s in fn.stmts(ast.Assign) if sym.stmt_nf(s) == sym.parse_pattern('%s = tuple(%s)' % (v, v))]
            fn.ob('TABLE', 'per-channel list %s is frozen into a tuple' % v, ok, site[0] if site else fn.ast, key='tuple-' + m)
    return fn, b


def recorded_settings(cx):
    """The per-channel settings the RFI conversion reads ($PnG with the vendor fallback, $PnR):
    the rows of the keyword table that feed amplifier_gain() and resolution()."""
    fn = Fn(cx, NEW)
    keep = ('channel count is $PAR', 'declared range R from $PnR', 'resolution is R', 'amplifier gain from $PnG',
            "FlowJo Collector's Edition fallback: CytekPnnG, only when $PnG is absent", 'FlowJo fallback keyword',
            'gain converted to float', 'gain list in channel order', 'stored: amplifier gains', 'stored: resolutions')
    items = [it for it in NEW_ITEMS if it[0] in keep]
    cx.need(len(items) == len(keep), 'recorded_settings: keyword table rows renamed')
    metas = {m: NEW_METAS[m] for m in ('F', 'NCH', 'PNR', 'CI', 'RES', 'CAG', 'AG', 'OBJ', 'I3')}
    b = inventory(fn, 'SETTINGS', items, metas, extra_defs_ok=('OBJ',))
    for m in ('AG', 'RES'):
        if m in b:
            v = b[m][1]
            ok = any(sym.stmt_nf(s_) == sym.parse_pattern('%s = tuple(%s)' % (v, v)) for s_ in fn.stmts(ast.Assign))
            site = [s_ for s_ in fn.stmts(ast.Assign) if sym.stmt_nf(s_) == sym.parse_pattern('%s = tuple(%s)' % (v, v))]
            fn.ob('SETTINGS', 'per-channel list %s is frozen into a tuple' % v, ok, site[0] if site else fn.ast, key='tuple-' + m)
    return fn


PARSE_TIME_ITEMS = [
    ('absent keyword -> absent time', 'if TSTR is None:'),
    ('fields separated by colons', "TL = TSTR.split(':')"),
    ('three fields: hh:mm:ss or hh:mm:ss.cc', 'if len(TL) == 3:'),
    ('fraction in 1/100 s marked by a dot in the seconds field: the dot becomes the separator; without a fraction a zero one is appended',
     "TSTR = TSTR.replace('.', ':') if '.' in TL[2] else TSTR + ':0'"),
    ('four fields: hh:mm:ss:tt with tt in 1/60 s', 'if len(TL) == 4:'),
    ('tt/60 s converted to zero-padded microseconds', "TL[3] = '{:06d}'.format(int(float(TL[3]) * 1000000.0 / 60))"),
    ('fields re-joined', "TSTR = ':'.join(TL)"),
    ('parsed as hours:minutes:seconds:microseconds', "T = datetime.datetime.strptime(TSTR, '%H:%M:%S:%f').time()"),
    ('failure -> absent', 'T = None'),
    ('result returned', 'return T'),
]


def parse_time(cx):
    fn = Fn(cx, 'io.FCSData._parse_time_string')
    b = inventory(fn, 'TABLE', PARSE_TIME_ITEMS, ['TSTR', 'TL', 'T'], fixed={'TSTR': fn.params[0]}, ordered_add=True)
    calls = fn.calls('datetime.datetime.strptime')
    fn.ob('TABLE', 'both accepted layouts are parsed (two strptime sites)', len(calls) == 2, calls[0] if calls else fn.ast, key='sites')
    return fn


def parse_date(cx):
    fn = Fn(cx, 'io.FCSData._parse_date_string')
    calls = fn.calls('datetime.datetime.strptime')
    fmts = [c.args[1].value for c in calls if len(c.args) == 2 and isinstance(c.args[1], ast.Constant)]
    ok = sorted(fmts) == sorted(['%d-%b-%y', '%d-%b-%Y', '%y-%b-%d', '%Y-%b-%d']) and \
        all(sym.norm(c.args[0]) == ('var', fn.params[0]) for c in calls)
    fn.ob('TABLE', 'dates are accepted as dd-mmm-yy, dd-mmm-yyyy, yy-mmm-dd, yyyy-mmm-dd', ok, calls[0] if calls else fn.ast,
          detail=str(fmts), key='formats')
    order = fmts.index('%d-%b-%y') < fmts.index('%d-%b-%Y') if ok else False
    fn.ob('TABLE', 'standard formats are tried before the non-standard ones', ok and fmts[:2] == ['%d-%b-%y', '%d-%b-%Y'], fn.ast, key='order')
    last = fn.ast.body[-1]
    ok = isinstance(last, ast.Return) and sym.norm(last.value) == ('const', None)
    fn.ob('TABLE', 'an unparsable date yields an absent date', ok, last, key='fallthrough')
    g = [s for s in fn.stmts(ast.If) if is_none_test(s.test, fn.params[0])]
    ok = len(g) == 1 and isinstance(g[0].body[0], ast.Return)
    fn.ob('TABLE', 'an absent keyword yields an absent date', ok, g[0] if g else fn.ast, key='none')
    return fn



ACCESSORS = ['io.FCSData.acquisition_time', 'io.FCSData.acquisition_start_time', 'io.FCSData.acquisition_end_time', 'io.FCSData.time_step',
             'io.FCSData.data_type', 'io.FCSData.infile', 'io.FCSData.text', 'io.FCSData.analysis', 'io.FCSData.channels']


def accessors_store_nothing(cx):
    """Reading a derived setting does not change the sample: no accessor stores through `self` (a second reading, a copy or
    a pickle taken afterwards would otherwise differ from what the file said)."""
    n = 0
    for q in ACCESSORS:
        try:
            fn = Fn(cx, q)
        except AnalysisError:
            continue
        n += 1
        st = []
        for s_ in fn.stmts((ast.Assign, ast.AugAssign, ast.Delete)):
            tg = s_.targets if isinstance(s_, (ast.Assign, ast.Delete)) else [s_.target]
            for t in tg:
                for x in ast.walk(t):
                    if isinstance(x, (ast.Attribute, ast.Subscript)) and isinstance(x.ctx, (ast.Store, ast.Del)):
                        r = x
                        while isinstance(r, (ast.Attribute, ast.Subscript)):
                            r = r.value
                        if isinstance(r, ast.Name) and r.id == 'self':
                            st.append(s_)
        fn.ob('TAGS', 'accessor %s stores nothing on the sample' % q.split('.')[-1], not st, st[0] if st else fn.ast,
              detail='' if not st else 'store `%s`' % norm_stmt(st[0]), key='no-store|' + q)
    cx.need(n >= 5, 'C17: accessors not found')


def run(cx):
    accessors_store_nothing(cx)
    n = 0
    _, k = optexc(cx, NEW, seeds=())
    n += k
    _, k = optexc(cx, 'io.FCSData._parse_time_string', seeds=('time_str',))
    n += k
    _, k = optexc(cx, 'io.FCSData._parse_date_string', seeds=('date_str',))
    n += k
    cx.floor('OPTEXC', n, 10, 'may-raise conversions of optional keyword values')
    nonnull_discipline(cx, NEW)
    acquisition_time(cx)
    new_table(cx)
    parse_time(cx)
    parse_date(cx)
    io_rules.amplification_type_parsing(cx)
    cx.tables['optional keywords'] = sorted(OPTIONAL)
    cx.decided += [
        'every float()/int()/strptime()/constant index applied to the value of an optional keyword is inside a try catching what it may raise; the handler clears exactly the value that failed and does not re-raise',
        'method calls and membership tests on possibly missing keywords are protected by a presence test of the same keyword',
        'acquisition_time: no arithmetic with a possibly-None or datetime.time operand on any path (type-tag abstract interpretation with narrowing); precedence chain time channel+step / start+end / None; two time channels -> KeyError',
        'keyword templates ($PnN, $PnS, $PnE, $PnR, $PnV, $PnG, BD$WORD(12+n), CytekPnnG, TIMETICKS/1000), vendor conditions on CREATOR, range [0, R-1], resolution int(R), date/time combination, and the wiring of each derived list into its attribute',
        'time parsing: the three standard layouts with their fraction conversions; date parsing: the four accepted formats in order',
    ]
    cx.not_decided += ['that strptime accepts exactly the standard\'s spellings (CPython)']
