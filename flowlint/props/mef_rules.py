"""Shared rules over FlowCal/mef.py (used by C02, C06, C09)."""
import ast

from ..core import AnalysisError, norm_stmt
from ..rules import (Fn, guards, guard_dominates, names_in, kwarg, spec_check, is_none_test,
                     subscript_stores, once_per_iteration, inventory)
from ..cfg import target_names
from .. import sym
from ..sym import dotted
from .transform_rules import zip_loops, check_order


def channel_loop(cx, fn):
    loops = [(f, p) for f, p in zip_loops(fn) if [dotted(a) for _, a in p] == ['mef_channels', 'mef_values']]
    cx.need(len(loops) == 1, 'mef.get_transform_fxn: expected one loop over zip(mef_channels, mef_values)')
    return loops[0]


def appends(fn, root=None):
    """name -> list of `name.append(x)` statements."""
    out = {}
    for st in fn.stmts(ast.Expr, root):
        c = st.value
        if isinstance(c, ast.Call) and isinstance(c.func, ast.Attribute) and c.func.attr == 'append' \
                and isinstance(c.func.value, ast.Name):
            out.setdefault(c.func.value.id, []).append(st)
    return out


def accumulators_once(cx, fn, loop, names, rule='ONCE'):
    ap = appends(fn, loop)
    n = 0
    for nm in names:
        sts = ap.get(nm, [])
        if len(sts) != 1:
            fn.ob(rule, 'accumulator %s receives exactly one entry per channel' % nm, False, loop,
                  detail='%d append statements in the channel loop' % len(sts), key='once-' + nm)
            continue
        ok, why = once_per_iteration(fn, loop, sts[0])
        # initialised empty before the loop, never otherwise modified
        inits = [d for d in fn.cfg.nodes if nm in fn.rd.gen[d.id]]
        okinit = len(inits) == 1 and isinstance(fn.rd.assigned_value(inits[0], nm), ast.List) \
            and not fn.rd.assigned_value(inits[0], nm).elts \
            and not any(a is loop for a in fn.ancestors(inits[0].ast))
        others = [m for m in fn.cfg.nodes if nm in fn.rd.mods[m.id]]
        allap = appends(fn).get(nm, [])
        ok2 = ok and okinit and not others and len(allap) == 1
        fn.ob(rule, 'accumulator %s receives exactly one entry per channel, in channel order' % nm, ok2, sts[0],
              detail='' if ok2 else (why or 'not initialised empty before the loop / modified elsewhere'),
              key='once-' + nm)
        n += 1
    return n


def curve_accumulator(cx, fn):
    """Name of the list bound as sc_list in the returned callable."""
    parts = [c for c in fn.calls('functools.partial')]
    cx.need(len(parts) == 1, 'mef.get_transform_fxn: expected one functools.partial')
    v = kwarg(parts[0], 'sc_list')
    cx.need(isinstance(v, ast.Name), 'mef.get_transform_fxn: sc_list is not bound to a named list')
    return v.id


def accumulator_names(fn, loop):
    """Lists initialised empty before the channel loop and appended to inside it."""
    ap = appends(fn, loop)
    out = []
    for nm in ap:
        inits = [s for s in fn.stmts(ast.Assign) if isinstance(s.targets[0], ast.Name) and s.targets[0].id == nm
                 and isinstance(s.value, ast.List) and not s.value.elts and s.lineno < loop.lineno]
        if inits:
            out.append(nm)
    return out


def own_channel_list(cx, fn=None, p=None, rule='PAIR'):
    """the channel list bound in the returned callable (and reported in the full output) is the function's own: a copy
    (or a new one-element list), never the caller's list object, which the caller may reorder or reuse afterwards while
    the returned callable is still in use"""
    if fn is None:
        fn = Fn(cx, 'mef.get_transform_fxn')
        parts = [c for c in fn.calls('functools.partial')]
        cx.need(len(parts) == 1, 'mef.get_transform_fxn: expected one functools.partial')
        p = parts[0]
    own = [d for d in fn.rd.reaching(fn.node(p), 'mef_channels')]
    vals = [fn.rd.assigned_value(d, 'mef_channels') if d.kind != 'entry' else None for d in own]
    ok = bool(own) and all(d.kind != 'entry' for d in own) and all(
        v is not None and sym.norm(v) in (sym.norm('list(mef_channels)'), sym.norm('[mef_channels]')) for v in vals)
    fn.ob(rule, 'the channel list bound in the callable is a list of the function\'s own (copy of the caller\'s, or a new one-element list)', ok, p,
          detail='' if ok else 'the caller\'s list object itself may reach the returned callable', key='partial-own-list')
    return fn


def transform_assembly(cx):
    """C06: one standard curve per calibrated channel; both lists bound in the returned callable."""
    fn = Fn(cx, 'mef.get_transform_fxn')
    loop, pairs = channel_loop(cx, fn)
    ACC = curve_accumulator(cx, fn)
    accumulators_once(cx, fn, loop, [ACC])
    # what is appended is the first output of the fitting function for this channel's selected values
    cx.need(ACC in appends(fn, loop), 'mef.get_transform_fxn: the curve list is not filled in the channel loop')
    ap = appends(fn, loop)[ACC][0].value.args[0]
    nf = fn.nf(ap, at=ap)
    fit_calls = [c for c in fn.calls('fitting_fxn', root=loop)]
    cx.need(len(fit_calls) == 1, 'mef.get_transform_fxn: expected one call of the fitting function per channel')
    want = ('idx', fn.nf(fit_calls[0], at=fit_calls[0]), ('num', 0))
    ok = nf == want
    fn.ob('ONCE', 'the curve stored for a channel is the standard curve fitted for that channel', ok, ap,
          detail='' if ok else 'appended value is %s' % sym.show(nf), key='curve-source')
    parts = [c for c in fn.calls('functools.partial')]
    cx.need(len(parts) == 1, 'mef.get_transform_fxn: expected one functools.partial')
    p = parts[0]
    ok = bool(p.args) and dotted(p.args[0]) == 'FlowCal.transform.to_mef' and \
        dotted(kwarg(p, 'sc_list')) == ACC and dotted(kwarg(p, 'sc_channels')) == 'mef_channels' \
        and {k.arg for k in p.keywords} == {'sc_list', 'sc_channels'} and len(p.args) == 1
    fn.ob('PAIR', 'returned callable fixes the curve list and the list of their channels (and nothing else)', ok, p,
          detail='' if ok else norm_stmt(p), key='partial')
    # the channel list bound is the very list that was iterated (same definitions reach both places)
    d1 = {d.id for d in fn.rd.reaching(fn.node(loop), 'mef_channels')}
    d2 = {d.id for d in fn.rd.reaching(fn.node(p), 'mef_channels')}
    mods = [m for m in fn.cfg.nodes if 'mef_channels' in fn.rd.mods[m.id]]
    ok = d1 == d2 and not mods
    fn.ob('PAIR', 'the channel list bound in the callable is the list the curves were computed for', ok, p,
          detail='' if ok else 'definitions differ or list modified', key='partial-channels')
    own_channel_list(cx, fn, p, 'PAIR')
    check_order(fn, 'PAIR', 'calibrated channel list keeps the caller\'s order', 'mef_channels', loop, 'mef_channels')
    # returned value is that callable (plain or as field transform_fxn)
    tname = None
    for st in fn.stmts(ast.Assign):
        if st.value is p and isinstance(st.targets[0], ast.Name):
            tname = st.targets[0].id
    rets = fn.stmts(ast.Return)
    okr = bool(tname) and len(rets) == 2
    for r in rets:
        if isinstance(r.value, ast.Name) and r.value.id == tname:
            continue
        vals = [v for d, v in fn.reaching_values(r.value.id, r)] if isinstance(r.value, ast.Name) else [r.value]
        okr = okr and all(isinstance(v, ast.Call) and dotted(kwarg(v, 'transform_fxn')) == tname for v in vals)
    fn.ob('PAIR', 'the callable is what is returned (directly or as the transform_fxn field)', okr, rets[-1] if rets else fn.ast,
          key='return')
    return fn


# ---------------------------------------------------------------------------
# C09: fit_beads_autofluorescence

FIT = 'mef.fit_beads_autofluorescence'
FIT_ITEMS = [
    ('initial slope: line through the two brightest populations in log-log space',
     'PARAMS[0] = (np.log(fl_mef[-1]) - np.log(fl_mef[-2])) / (np.log(fl_rfi[-1]) - np.log(fl_rfi[-2]))'),
    ('initial intercept from the brightest population', 'PARAMS[1] = np.log(fl_mef[-1]) - PARAMS[0] * np.log(fl_rfi[-1])'),
    ('initial autofluorescence from the dimmest population', 'PARAMS[2] = np.exp(PARAMS[0] * np.log(fl_rfi[0]) + PARAMS[1]) - fl_mef[0]'),
    ('parameter vector has three fresh entries', 'PARAMS = np.zeros(3)'),
    ('the error minimised is the squared log-space residual of m*log(rfi)+b = log(mef+auto) on the given bead pairs',
     'EP = lambda PP: np.sum((np.log(fl_mef + PP[2]) - (PP[0] * np.log(fl_rfi) + PP[1])) ** 2)'),
    ('minimisation from the initial guess with the autofluorescence bounded below by 0 and nothing else bounded',
     "RES = minimize(EP, PARAMS, bounds=((None, None), (None, None), (0, None)), options={'gtol': 1e-10, 'ftol': 1e-10})"),
    ('fitted parameters are the minimiser\'s solution', 'BP = RES.x'),
    ('returned bead model: exp(m*log(x)+b) - auto with the fitted parameters', 'BM = lambda XM: np.exp(BP[0] * np.log(XM) + BP[1]) - BP[2]'),
    ('returned standard curve: sign(x)*exp(b)*|x|**m (odd, zero at zero) with the same fitted parameters',
     'SCV = lambda XS: np.sign(XS) * np.exp(BP[1]) * np.abs(XS) ** BP[0]'),
    ('outputs in the documented order', 'return (SCV, BM, BP, BMS, BPN)'),
    ('model as text', "BMS = 'm*log(fl_rfi) + b = log(fl_mef_auto + fl_mef)'"),
    ('parameter names', "BPN = ['m', 'b', 'fl_mef_auto']"),
]
FIT_METAS = {m: m for m in ['PARAMS', 'EP', 'RES', 'BP', 'BM', 'SCV', 'BMS', 'BPN', 'PP', 'XM', 'XS']}


def fit_model(cx):
    fn = Fn(cx, FIT)
    ok = fn.params == ['fl_rfi', 'fl_mef'] and not fn.ast.args.defaults and not fn.ast.args.kwarg and not fn.ast.args.vararg
    fn.ob('GUARD', 'the fit takes the two bead lists and nothing else (no state can be passed in or kept)', ok, fn.ast,
          detail='' if ok else 'signature %s' % fn.params, key='signature')
    g1 = [g for g, p in guards(fn, exc=['ValueError']) if not p and sym.norm(g.test) == sym.norm('len(fl_rfi) != len(fl_mef)')]
    g2 = [g for g, p in guards(fn, exc=['ValueError']) if not p and sym.norm(g.test) in (sym.norm('len(fl_rfi) <= 2'), sym.norm('len(fl_rfi) < 3'))]
    first = [s for s in fn.stmts(ast.Assign) if isinstance(s.targets[0], ast.Name)]
    for g, inst, key in ((g1, 'lists of different lengths are refused before anything is computed', 'len-mismatch'),
                         (g2, 'fewer than three populations are refused before anything is computed', 'min-three')):
        ok = len(g) == 1 and bool(first) and guard_dominates(fn, g[0], False, first[0])
        fn.ob('GUARD', inst, ok, g[0] if g else fn.ast, key=key)
    b = inventory(fn, 'FORMULA', FIT_ITEMS, FIT_METAS)
    # (helper functions, nested defs or lambdas, are inlined into the statements that call them: the items above
    #  are written in the inlined form and match whether or not the code uses helpers)
    # fitted parameter vector is not shared between calls: nothing assigns into it after the fit
    if 'BP' in b:
        bp = b['BP'][1]
        st = [s for s, t in subscript_stores(fn) if sym.norm(t.value if isinstance(t, ast.Subscript) else t) == ('var', bp)]
        fn.ob('FORMULA', 'the fitted parameter vector is not written after the fit', not st, st[0] if st else fn.ast, key='bp-immutable')
    return fn


# ---------------------------------------------------------------------------
# C02: calibration workflow

GTF = 'mef.get_transform_fxn'
GTF_ITEMS = [
    ('a single channel is treated as a one-element list of channels', 'mef_channels = [mef_channels]'),
    ('... with its values as a one-element list', 'mef_values = [mef_values]'),
    ('a list of channels is copied', 'mef_channels = list(mef_channels)'),
    ('clustering channels default to the calibrated channels', 'clustering_channels = mef_channels'),
    ('... only when none are given', 'if clustering_channels is None:'),
    ('manufacturer values as a float array (unknown values become NaN)', 'mef_values = np.array(mef_values, dtype=float)'),
    ('number of subpopulations = number of values per channel', 'NC = len(mef_values[0])'),
    ('clustering on the clustering channels into that many groups',
     'LABELS = clustering_fxn(data_beads[:, clustering_channels], NC, **clustering_params)'),
    ('one group per distinct label', 'UL = np.array(list(set(LABELS)))'),
    ('events of a group are the events carrying its label (one label per event)', 'POPS = [data_beads[LABELS == LI] for LI in UL]'),
    ('brightness measure: squared distance of the group mean (clustering channels) to the origin',
     'PD = [np.sum(np.mean(PO[:, clustering_channels], axis=0) ** 2) for PO in POPS]'),
    ('groups are ordered by increasing brightness', 'PSI = np.argsort(PD)'),
    ('... and kept in that order', 'POPS = [POPS[PI] for PI in PSI]'),
    ('per channel: the channel\'s events of every group, in brightness order', 'PCH = [PO2[:, MCH] for PO2 in POPS]'),
    ('one statistic per group', 'SV = [statistic_fxn(PO3, **statistic_params) for PO3 in PCH]'),
    ('... as an array', 'SV = np.array(SV)'),
    ('selection works on a fresh list of the channel populations; without a selection function every group is selected',
     'SM = selection_fxn([PO4 for PO4 in PCH], **selection_params) if selection_fxn is not None else np.ones(NC, dtype=bool)'),
    ('groups whose value for THIS channel is unknown are excluded', 'SM = np.logical_and(SM, ~np.isnan(MVC))'),
    ('selected RFI values', 'SRFI = SV[SM]'),
    ('selected MEF values, by the same mask', 'SMEF = MVC[SM]'),
    ('fit on the selected pairs of this channel', 'FO = fitting_fxn(SRFI, SMEF, **fitting_params)'),
    ('labels reported as computed', "CR = {'labels': LABELS}"),
    ('statistics reported per channel', "SR = {'values': SVR}"),
    ('selected RFI and MEF reported per channel', "SELR = {'rfi': SRR, 'mef': SMR}"),
]
GTF_METAS = {m: m for m in ['NC', 'LABELS', 'UL', 'POPS', 'LI', 'PD', 'PSI', 'PI', 'PCH', 'MCH', 'SV', 'SM', 'MVC', 'SRFI', 'SMEF', 'FO',
                            'CR', 'SR', 'SVR', 'SELR', 'SRR', 'SMR']}
for _m in ('PO', 'PO2', 'PO3', 'PO4'):
    GTF_METAS[_m] = 'PO'


def calibration_workflow(cx):
    fn = Fn(cx, GTF)
    loop, pairs = channel_loop(cx, fn)
    b = inventory(fn, 'FORMULA', GTF_ITEMS, GTF_METAS, fixed={'MCH': pairs[0][0], 'MVC': pairs[1][0]}, rebind_ok=('plot_filename',))
    # ordering: nothing re-orders the populations after the sort; the sort precedes the channel loop
    pops = b.get('POPS')
    if pops:
        defs = [s for s in fn.stmts(ast.Assign) if isinstance(s.targets[0], ast.Name) and s.targets[0].id == pops[1]]
        ok = len(defs) == 2 and all(d.lineno < loop.lineno for d in defs)
        mods = [m for m in fn.cfg.nodes if pops[1] in fn.rd.mods[m.id]]
        inpl = [c for c in fn.calls() if isinstance(c.func, ast.Attribute) and dotted(c.func.value) == pops[1]
                and c.func.attr in ('sort', 'reverse', 'pop', 'append', 'insert', 'remove')]
        fn.ob('SLICE', 'the population list is defined by grouping and by the brightness sort only, before the channel loop', ok and not mods and not inpl,
              defs[-1] if defs else fn.ast, key='order-once')
    # the default clustering channels are the channel LIST: the caller's own value (possibly a bare name or number) does not
    # reach the defaulting statement, only the two normalising definitions do
    dflt = [s_ for s_ in fn.stmts(ast.Assign) if len(s_.targets) == 1 and sym.norm(s_.targets[0]) == ('var', 'clustering_channels')
            and sym.norm(s_.value) == ('var', 'mef_channels')]
    if len(dflt) == 1:
        rdefs = fn.rd.reaching(fn.node(dflt[0]), 'mef_channels')
        ok = bool(rdefs) and all(d_.kind != 'entry' for d_ in rdefs)
        fn.ob('SLICE', 'clustering channels default to the channel list (after a single channel was wrapped), not to the bare argument', ok,
              dflt[0], detail='' if ok else 'the argument as passed by the caller reaches `%s`' % norm_stmt(dflt[0]), key='default-after-wrap')
    # accumulators
    names = accumulator_names(fn, loop)
    n = accumulators_once(cx, fn, loop, names)
    cx.floor('ONCE', n, 8, 'result accumulators')
    # what is accumulated: the reported lists collect this channel's statistic vector and selections
    ap = appends(fn, loop)
    for meta, rep, what in (('SV', 'SVR', 'statistics'), ('SRFI', 'SRR', 'selected RFI values'), ('SMEF', 'SMR', 'selected MEF values')):
        if meta in b and rep in b:
            acc = b[rep][1]
            ok = acc in ap and len(ap[acc]) == 1 and sym.norm(ap[acc][0].value.args[0]) == b[meta]
            fn.ob('ONCE', 'the reported %s are the ones computed for each channel' % what, ok, ap[acc][0] if acc in ap else loop,
                  key='acc-src-' + meta)
    # RNG: the only randomness is NumPy's legacy global generator / estimators without their own seed
    cl = Fn(cx, 'mef.clustering_gmm')
    rnd = []
    for f in (fn, cl, Fn(cx, 'mef.selection_std'), Fn(cx, FIT)):
        for c in f.calls():
            d = dotted(c.func) or ''
            if 'random' in d:
                rnd.append((f, c, d))
    ok = len(rnd) == 1 and rnd[0][2] == 'np.random.choice'
    cl.ob('RNG', 'the only random draw is np.random.choice (legacy global generator, reproducible under np.random.seed)', ok,
          rnd[0][1] if rnd else cl.ast, detail=str([r[2] for r in rnd]), key='rng-sites')
    gm = cl.calls('GaussianMixture')
    ok = len(gm) == 1 and kwarg(gm[0], 'random_state') is None
    cl.ob('RNG', 'the mixture estimator gets no private random state', ok, gm[0] if gm else cl.ast, key='rng-gmm')
    return fn


GMM_ITEMS = [
    ('events are copied before rescaling', 'EV = data.copy()'),
    ('equal initial weights', 'W = np.tile(1.0 / n_clusters, n_clusters)'),
    ('distance to the minimum corner', 'DIST = np.sum((EV - np.min(EV, axis=0)) ** 2.0, axis=1)'),
    ('events ordered by that distance', 'SI = np.argsort(DIST)'),
    ('expected events per cluster', 'NPC = EV.shape[0] / float(n_clusters)'),
    ('lower quantile bound of cluster i', 'IL = int((I + DF / 2) * NPC)'),
    ('upper quantile bound of cluster i', 'IH = int((I + 1 - DF / 2) * NPC)'),
    ('events of the quantile slice', 'SIC = SI[IL:IH]'),
    ('their values', 'DC = EV[SIC]'),
    ('initial mean of the cluster', 'MEANS.append(np.mean(DC, axis=0))'),
    ('covariance of the slice (1x1 matrix for a single channel)',
     'COV = np.cov(DC.T).reshape(1, 1) if EV.shape[1] == 1 else np.cov(DC.T)'),
    ('old scikit-learn: mixture with the same initial parameters',
     "MIX = GMM(n_components=n_clusters, tol=tol, min_covar=min_covar, covariance_type='full', params='mc', init_params='')"),
    ('old scikit-learn: initial weights', 'MIX.weight_ = W'),
    ('old scikit-learn: initial means', 'MIX.means_ = MEANS'),
    ('old scikit-learn: initial covariances', 'MIX.covars_ = COVARS'),
    ('covariance regularised on its diagonal for every cluster', 'COV += np.eye(EV.shape[1]) * min_covar'),
    ('initial covariance of the cluster', 'COVARS.append(COV)'),
    ('means as an array', 'MEANS = np.array(MEANS)'),
    ('precisions are the inverses of the regularised covariances',
     "PREC = [scipy.linalg.solve(CV, np.eye(CV.shape[0]), assume_a='pos') for CV in COVARS]"),
    ('precisions as an array', 'PREC = np.array(PREC)'),
    ('the mixture is initialised with the quantile means, equal weights and those precisions',
     "MIX = GaussianMixture(n_components=n_clusters, tol=tol, covariance_type='full', weights_init=W, means_init=MEANS, precisions_init=PREC, max_iter=500)"),
    ('fit on the rescaled events', 'MIX.fit(EV)'),
    ('responsibilities of every event', 'RESP = MIX.predict_proba(EV)'),
    ('one label per event sampled from its responsibilities', 'LBL = [np.random.choice(range(n_clusters), p=RI) for RI in RESP]'),
    ('labels returned', 'return LBL'),
]


def clustering(cx):
    fn = Fn(cx, 'mef.clustering_gmm')
    # (EV: the working copy of the events, under the argument's own name or a new one; its rescaling statements are
    #  decided by the scale rules, not by this inventory)
    b = inventory(fn, 'FORMULA', GMM_ITEMS, ['EV', 'W', 'DIST', 'SI', 'NPC', 'IL', 'IH', 'I', 'DF', 'SIC', 'DC', 'MEANS', 'COV', 'COVARS',
                                             'MIX', 'RESP', 'LBL', 'RI', 'PREC', 'CV'], rebind_ok=('data', 'min_covar'), extra_defs_ok=('EV',))
    # the regularisation is applied on every path of the per-cluster loop
    reg = [s for s in fn.stmts(ast.AugAssign) if 'min_covar' in ast.unparse(s)]
    if reg:
        lp = [a for a in fn.ancestors(reg[0]) if isinstance(a, ast.For)]
        ok = bool(lp) and any(reg[0] is x for x in lp[0].body)
        fn.ob('FORMULA', 'the covariance regularisation is unconditional (also for a single clustering channel)', ok, reg[0], key='reg-unconditional')
    return fn


SEL_ITEMS = [
    ('default low threshold: 1.5% above the lower range limit (in scaled units)', 'low = SF(R[0]) + 0.015 * (SF(R[1]) - SF(R[0]))'),
    ('default high threshold: 98.5% of the range (in scaled units)', 'high = SF(R[0]) + 0.985 * (SF(R[1]) - SF(R[0]))'),
    ('given thresholds are rescaled', 'low = SF(low)'),
    ('given thresholds are rescaled (high)', 'high = SF(high)'),
    ('populations are copied into a new list', 'populations = [P.copy() for P in populations]'),
    ('population means in scaled units', 'PM = np.array([FlowCal.stats.mean(P2) for P2 in populations])'),
    ('population standard deviations in scaled units', 'PS = np.array([FlowCal.stats.std(P3) for P3 in populations])'),
    ('minimum standard deviation', 'MS = 0.005'),
    ('... enforced', 'PS[PS < MS] = MS'),
    ('a population is selected iff mean -/+ n_std*std stays strictly inside (low, high)',
     'SM = np.logical_and(PM - n_std_low * PS > low, PM + n_std_high * PS < high)'),
    ('the mask is returned', 'return SM'),
]
SEL_METAS = {m: m for m in ['SF', 'R', 'PM', 'PS', 'MS', 'SM']}
for _m in ('P', 'P2', 'P3'):
    SEL_METAS[_m] = 'P'


def selection(cx):
    fn = Fn(cx, 'mef.selection_std')
    inventory(fn, 'FORMULA', SEL_ITEMS, SEL_METAS)
    # default thresholds only when none are given
    for p in ('low', 'high'):
        blk = [s for s in fn.stmts(ast.If) if is_none_test(s.test, p)]
        fn.ob('NULLDEFAULT', 'threshold %s is derived from the range only when it is not given' % p, len(blk) == 1, blk[0] if blk else fn.ast,
              key='default-' + p)
    return fn


def no_module_state(cx, modules=('mef',), extra=()):
    """NOSTATE: the calibration depends on its arguments only.  No function of the calibration module
    (or a listed callee) stores into, mutates or rebinds a module-level object: a later call can then not
    see anything of an earlier one.  Decided by the may-alias effect analysis (flowlint/mut.py): every
    store / in-place operation / mutator call whose receiver may be a module-level object is an event."""
    from .. import mut
    from ..core import norm_stmt
    import ast
    prog = mut.Program(cx.repo).solve()
    n = 0
    for q in sorted(prog.funcs):
        if q.split('.')[0] not in modules and q not in extra:
            continue
        mod, f, cls = prog.funcs[q]
        n += 1
        cx.functions_analysed.add(q)
        bad = [ev for ev in prog.events.get(q, []) if any(t.startswith('G:') for t in ev.tags)]
        glob = [st for st in ast.walk(f) if isinstance(st, (ast.Global, ast.Nonlocal)) and isinstance(st, ast.Global)]
        for ev in bad:
            cx.ob('NOSTATE', 'no state is kept between calls (module-level objects are never written)', False, mod, ev.node, q,
                  detail='%s changes module-level %s' % (ev.what, ', '.join(sorted(t[2:] for t in ev.tags if t.startswith('G:')))),
                  key='state|' + norm_stmt(ev.node)[:100])
        for st in glob:
            cx.ob('NOSTATE', 'no state is kept between calls (module-level objects are never written)', False, mod, st, q,
                  detail='`global %s` lets the function rebind module state' % ', '.join(st.names), key='global|' + ','.join(st.names))
        if not bad and not glob:
            cx.ob('NOSTATE', 'no state is kept between calls (module-level objects are never written)', True, mod, f, q, key='clean')
    cx.floor('NOSTATE', n, 6, 'functions of the calibration module')
