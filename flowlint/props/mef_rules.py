"""Shared rules over FlowCal/mef.py (used by C02, C06, C09)."""
import ast

from ..core import AnalysisError, norm_stmt
from ..rules import (Fn, guards, guard_dominates, names_in, kwarg, spec_check, is_none_test,
                     subscript_stores, once_per_iteration)
from ..cfg import target_names
from .. import sym
from ..sym import dotted
from .transform_rules import zip_loops, check_order


def channel_loop(cx, fn):
    loops = [(f, p) for f, p in zip_loops(fn) if [dotted(a) for _, a in p] == ['mef_channels', 'mef_values']]
    cx.need(len(loops) == 1, 'mef.get_transform_fxn: expected one loop over zip(mef_channels, mef_values)')
    return loops[0]


def appends(fn, root=None):
    """name -> list of `name.append(x)` statements."""
    out = {}
    for st in fn.stmts(ast.Expr, root):
        c = st.value
        if isinstance(c, ast.Call) and isinstance(c.func, ast.Attribute) and c.func.attr == 'append' \
                and isinstance(c.func.value, ast.Name):
            out.setdefault(c.func.value.id, []).append(st)
    return out


def accumulators_once(cx, fn, loop, names, rule='ONCE'):
    ap = appends(fn, loop)
    n = 0
    for nm in names:
        sts = ap.get(nm, [])
        if len(sts) != 1:
            fn.ob(rule, 'accumulator %s receives exactly one entry per channel' % nm, False, loop,
                  detail='%d append statements in the channel loop' % len(sts), key='once-' + nm)
            continue
        ok, why = once_per_iteration(fn, loop, sts[0])
        # initialised empty before the loop, never otherwise modified
        inits = [d for d in fn.cfg.nodes if nm in fn.rd.gen[d.id]]
        okinit = len(inits) == 1 and isinstance(fn.rd.assigned_value(inits[0], nm), ast.List) \
            and not fn.rd.assigned_value(inits[0], nm).elts \
            and not any(a is loop for a in fn.ancestors(inits[0].ast))
        others = [m for m in fn.cfg.nodes if nm in fn.rd.mods[m.id]]
        allap = appends(fn).get(nm, [])
        ok2 = ok and okinit and not others and len(allap) == 1
        fn.ob(rule, 'accumulator %s receives exactly one entry per channel, in channel order' % nm, ok2, sts[0],
              detail='' if ok2 else (why or 'not initialised empty before the loop / modified elsewhere'),
              key='once-' + nm)
        n += 1
    return n


def transform_assembly(cx):
    """C06: one standard curve per calibrated channel; both lists bound in the returned callable."""
    fn = Fn(cx, 'mef.get_transform_fxn')
    loop, pairs = channel_loop(cx, fn)
    accumulators_once(cx, fn, loop, ['std_crv_res'])
    # what is appended is the first output of the fitting function for this channel's selected values
    ap = appends(fn, loop)['std_crv_res'][0].value.args[0]
    nf = fn.nf(ap, at=ap)
    fit_calls = [c for c in fn.calls('fitting_fxn', root=loop)]
    cx.need(len(fit_calls) == 1, 'mef.get_transform_fxn: expected one call of the fitting function per channel')
    want = ('idx', fn.nf(fit_calls[0], at=fit_calls[0]), ('num', 0))
    ok = nf == want
    fn.ob('ONCE', 'the curve stored for a channel is the standard curve fitted for that channel', ok, ap,
          detail='' if ok else 'appended value is %s' % sym.show(nf), key='curve-source')
    parts = [c for c in fn.calls('functools.partial')]
    cx.need(len(parts) == 1, 'mef.get_transform_fxn: expected one functools.partial')
    p = parts[0]
    ok = bool(p.args) and dotted(p.args[0]) == 'FlowCal.transform.to_mef' and \
        dotted(kwarg(p, 'sc_list')) == 'std_crv_res' and dotted(kwarg(p, 'sc_channels')) == 'mef_channels' \
        and {k.arg for k in p.keywords} == {'sc_list', 'sc_channels'} and len(p.args) == 1
    fn.ob('PAIR', 'returned callable fixes the curve list and the list of their channels (and nothing else)', ok, p,
          detail='' if ok else norm_stmt(p), key='partial')
    # the channel list bound is the very list that was iterated (same definitions reach both places)
    d1 = {d.id for d in fn.rd.reaching(fn.node(loop), 'mef_channels')}
    d2 = {d.id for d in fn.rd.reaching(fn.node(p), 'mef_channels')}
    mods = [m for m in fn.cfg.nodes if 'mef_channels' in fn.rd.mods[m.id]]
    ok = d1 == d2 and not mods
    fn.ob('PAIR', 'the channel list bound in the callable is the list the curves were computed for', ok, p,
          detail='' if ok else 'definitions differ or list modified', key='partial-channels')
    check_order(fn, 'PAIR', 'calibrated channel list keeps the caller\'s order', 'mef_channels', loop, 'mef_channels')
    # returned value is that callable (plain or as field transform_fxn)
    tname = None
    for st in fn.stmts(ast.Assign):
        if st.value is p and isinstance(st.targets[0], ast.Name):
            tname = st.targets[0].id
    rets = fn.stmts(ast.Return)
    okr = bool(tname) and len(rets) == 2
    for r in rets:
        if isinstance(r.value, ast.Name) and r.value.id == tname:
            continue
        vals = [v for d, v in fn.reaching_values(r.value.id, r)] if isinstance(r.value, ast.Name) else [r.value]
        okr = okr and all(isinstance(v, ast.Call) and dotted(kwarg(v, 'transform_fxn')) == tname for v in vals)
    fn.ob('PAIR', 'the callable is what is returned (directly or as the transform_fxn field)', okr, rets[-1] if rets else fn.ast,
          key='return')
    return fn
