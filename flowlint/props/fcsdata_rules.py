"""Lifecycle tables of io.FCSData / io.FCSFile (ATTRSET, EQHASH, GETITEM); used by C04, C13, C20, C07."""
import ast

from ..core import AnalysisError, norm_stmt
from ..rules import Fn, names_in, kwarg, is_none_test, subscript_stores
from .. import sym
from ..sym import dotted


def attr_stores(fn, objname):
    """{attr: [Assign]} for statements `objname.attr = value`."""
    out = {}
    for st in fn.stmts(ast.Assign):
        for t in st.targets:
            if isinstance(t, ast.Attribute) and isinstance(t.value, ast.Name) and t.value.id == objname:
                out.setdefault(t.attr, []).append(st)
    return out


def constructor_attrs(cx):
    """Attribute set A stored on the new object in __new__, with a mutability verdict per attribute."""
    fn = Fn(cx, 'io.FCSData.__new__')
    rets = fn.stmts(ast.Return)
    cx.need(len(rets) == 1 and isinstance(rets[0].value, ast.Name), 'FCSData.__new__: expected `return <obj>`')
    obj = rets[0].value.id
    st = attr_stores(fn, obj)
    cx.need(len(st) >= 10, 'FCSData.__new__: only %d attribute stores found' % len(st))
    mutable = {}
    for a, ss in st.items():
        cx.need(len(ss) == 1, 'FCSData.__new__: attribute %s stored %d times' % (a, len(ss)))
        v = ss[0].value
        mut = None
        if isinstance(v, ast.Name):
            defs = fn.reaching_values(v.id, ss[0])
            kinds = set()
            for d, dv in defs:
                if dv is None:
                    kinds.add('param' if d.kind == 'entry' else 'unknown')
                elif isinstance(dv, (ast.List, ast.ListComp, ast.Dict, ast.DictComp)):
                    kinds.add('mutable')
                elif isinstance(dv, ast.Call) and dotted(dv.func) in ('tuple', 'float', 'int', 'str'):
                    kinds.add('immutable')
                elif isinstance(dv, ast.Constant):
                    kinds.add('immutable')
                elif isinstance(dv, ast.Call):
                    d0 = dotted(dv.func) or ''
                    if d0.endswith('.get') or d0.endswith('_parse_time_string') or d0.endswith('_parse_date_string') \
                            or d0.endswith('datetime.combine') or d0 == 'float':
                        kinds.add('immutable')
                    else:
                        kinds.add('unknown')
                else:
                    kinds.add('unknown')
            mut = 'mutable' if 'mutable' in kinds else ('immutable' if kinds <= {'immutable', 'param'} else 'unknown')
        elif isinstance(v, ast.Attribute):
            mut = 'mutable'      # fcs_file.text / fcs_file.analysis dictionaries
        else:
            mut = 'unknown'
        mutable[a] = mut
    return fn, obj, st, mutable


def attrset(cx, rule='ATTRSET'):
    """All lifecycle tables agree on the attribute set, with straight wiring and deep copies."""
    fn_new, obj, st_new, mutable = constructor_attrs(cx)
    A = set(st_new)
    cx.tables['FCSData attributes (from __new__)'] = sorted(A)
    cx.tables['FCSData attribute mutability'] = mutable
    # __array_finalize__
    fin = Fn(cx, 'io.FCSData.__array_finalize__')
    src = fin.params[1]
    fs = attr_stores(fin, 'self')
    ok = set(fs) == A
    fin.ob(rule, '__array_finalize__ propagates exactly the constructor\'s attribute set', ok, fin.ast,
           detail='' if ok else 'missing %s, extra %s' % (sorted(A - set(fs)), sorted(set(fs) - A)), key='finalize-set')
    for a in sorted(set(fs) & A):
        for s in fs[a]:
            v = sym.norm(s.value)
            deep = v == sym.norm('copy.deepcopy(%s.%s)' % (src, a))
            plain = v in (sym.norm('%s.%s' % (src, a)), sym.norm("getattr(%s, '%s', None)" % (src, a)))
            straight = deep or plain or v in (sym.norm('copy.copy(%s.%s)' % (src, a)), sym.norm('list(%s.%s)' % (src, a)),
                                              sym.norm('dict(%s.%s)' % (src, a)), sym.norm('tuple(%s.%s)' % (src, a)))
            fin.ob(rule, 'attribute %s is copied from the same attribute of the parent' % a, straight, s,
                   detail='' if straight else 'cross-wired or transformed: `%s`' % norm_stmt(s), key='finalize-wire-' + a)
            if mutable.get(a) != 'immutable':
                fin.ob(rule, 'attribute %s (not immutable) is deep-copied, so derived arrays share no metadata' % a, deep, s,
                       detail='' if deep else '`%s` shares or only shallow-copies the parent\'s %s' % (norm_stmt(s), a),
                       key='finalize-deep-' + a)
            # guarded by hasattr of the same attribute (or getattr default)
            g = [x for x in fin.ancestors(s) if isinstance(x, ast.If)]
            okg = (not g and 'getattr' in ast.unparse(s.value)) or \
                (g and sym.norm(g[0].test) == sym.norm("hasattr(%s, '%s')" % (src, a)))
            fin.ob(rule, 'copy of %s is conditional only on the parent having %s' % (a, a), bool(okg), s, key='finalize-guard-' + a)
    # early exit only for obj is None
    rets = fin.stmts(ast.Return)
    ok = all(any(isinstance(x, ast.If) and is_none_test(x.test, src) for x in fin.ancestors(r)) for r in rets)
    fin.ob(rule, '__array_finalize__ skips the copy only for explicit construction (parent is None)', ok, fin.ast, key='finalize-exit')
    # pickle state tuple
    mod = cx.repo.mod('io')
    fields = None
    for s in mod.tree.body:
        if isinstance(s, ast.Assign) and isinstance(s.value, ast.Call) and (dotted(s.value.func) or '').endswith('namedtuple') \
                and dotted(s.targets[0]) == '_FCSDataPickleState':
            f = kwarg(s.value, 'field_names', 1)
            try:
                fields = list(ast.literal_eval(f))
            except Exception:
                fields = None
            state_node = s
    cx.need(fields is not None, 'io._FCSDataPickleState not found')
    ok = {'_' + f for f in fields} == A and len(fields) == len(set(fields))
    cx.ob(rule, 'pickle state tuple lists exactly the attribute set', ok, mod, state_node, 'io._FCSDataPickleState',
          detail='' if ok else 'missing %s, extra %s' % (sorted(A - {'_' + f for f in fields}), sorted({'_' + f for f in fields} - A)),
          key='state-fields')
    red = Fn(cx, 'io.FCSData.__reduce__')
    calls = red.calls('_FCSDataPickleState')
    cx.need(len(calls) == 1, 'FCSData.__reduce__: expected one state construction')
    c = calls[0]
    kws = {k.arg: k.value for k in c.keywords}
    for i, a in enumerate(c.args):
        if i < len(fields):
            kws[fields[i]] = a
    ok = set(kws) == set(fields)
    red.ob(rule, '__reduce__ fills every field of the state tuple', ok, c,
           detail='' if ok else 'missing %s' % sorted(set(fields) - set(kws)), key='reduce-set')
    for f, v in sorted(kws.items()):
        okw = sym.norm(v) == sym.norm('self._' + f)
        red.ob(rule, 'state field %s is the current value of attribute _%s' % (f, f), okw, v,
               detail='' if okw else 'field %s = %s' % (f, ast.unparse(v)), key='reduce-wire-' + f)
    sst = Fn(cx, 'io.FCSData.__setstate__')
    ss = attr_stores(sst, 'self')
    ok = set(ss) == A
    sst.ob(rule, '__setstate__ restores exactly the attribute set', ok, sst.ast,
           detail='' if ok else 'missing %s, extra %s' % (sorted(A - set(ss)), sorted(set(ss) - A)), key='setstate-set')
    # name of the unpacked state: `x = state[0]`
    stname = None
    for s in sst.stmts(ast.Assign):
        if sym.norm(s.value) == sym.norm('%s[0]' % sst.params[1]) and isinstance(s.targets[0], ast.Name):
            stname = s.targets[0].id
    sst.ob(rule, 'the FCSData state is the first element of the pickled state', stname is not None, sst.ast, key='setstate-unpack')
    for a in sorted(set(ss) & A):
        for s in ss[a]:
            okw = stname is not None and sym.norm(s.value) == sym.norm('%s.%s' % (stname, a[1:])) and \
                not any(isinstance(x, (ast.If, ast.For)) for x in sst.ancestors(s))
            sst.ob(rule, 'attribute %s is restored from the field of the same name' % a, okw, s,
                   detail='' if okw else '`%s`' % norm_stmt(s), key='setstate-wire-' + a)
    return A, mutable


def reduce_shape(cx, rule='ATTRSET'):
    """__reduce__ keeps NumPy's own reduce value (callable, args, state) and appends the FCSData state;
    __setstate__ hands NumPy's part back to ndarray.__setstate__."""
    red = Fn(cx, 'io.FCSData.__reduce__')
    sup = [st for st in red.stmts(ast.Assign) if sym.norm(st.value) in (
        sym.norm('super(FCSData, self).__reduce__()'), sym.norm('super().__reduce__()'),
        sym.norm('np.ndarray.__reduce__(self)'))]
    ok = len(sup) == 1
    red.ob(rule, 'the array part of the pickle is NumPy\'s own __reduce__ of this very object', ok, sup[0] if sup else red.ast,
           detail='' if ok else 'no `super(FCSData, self).__reduce__()`', key='reduce-super')
    if ok:
        sv = sup[0].targets[0].id
        others = [c for c in red.calls() if isinstance(c.func, ast.Attribute) and c.func.attr in ('__reduce__', '__reduce_ex__')
                  and c is not sup[0].value]
        red.ob(rule, 'no second reduce of a modified array', not others, others[0] if others else red.ast, key='reduce-single')
        from ..rules import inventory
        inventory(red, rule, [
            ('the array part of the pickle is NumPy\'s own reduce value', 'SUP = super(FCSData, self).__reduce__()'),
            ('reduce value starts as NumPy\'s reduce value', 'RV = list(SUP)'),
            ('NumPy\'s own state, when present, is kept', 'if len(SUP) > 2:'),
            ('... as second element next to the FCSData state', 'RV[2] = (FS, SUP[2])'),
            ('... otherwise the FCSData state stands alone', 'RV.append((FS,))'),
            ('the reduce value is returned as a tuple', 'return tuple(RV)'),
        ], ['SUP', 'RV', 'FS'])
    sst = Fn(cx, 'io.FCSData.__setstate__')
    st = sst.params[1]
    # NumPy's part of the state goes back to ndarray.__setstate__ (either spelling of the call), when there is one,
    # before the attributes are restored; written with or without temporaries
    direct = [c for c in sst.calls() if dotted(c.func) == 'np.ndarray.__setstate__']
    call = 'np.ndarray.__setstate__(self, %s[1])' % st if direct else 'super(FCSData, self).__setstate__(%s[1])' % st
    bset = inventory(sst, rule, [
        ('the FCSData part of the state is the first element', 'FS = %s[0]' % st),
        ('NumPy\'s part, when present, is the second', 'if len(%s) > 1:' % st),
        ('... and is handed to ndarray.__setstate__', call),
    ], ['FS'])
    m_ = bset.get('__matched__', {})
    sup = m_.get('... and is handed to ndarray.__setstate__')
    first_attr = [s_ for s_ in sst.stmts(ast.Assign) if isinstance(s_.targets[0], ast.Attribute) and dotted(s_.targets[0].value) == 'self']
    ok = sup is not None and bool(first_attr) and all(sup.lineno < s_.lineno for s_ in first_attr)
    sst.ob(rule, '__setstate__ gives NumPy\'s part of the state back to ndarray.__setstate__ before restoring attributes', ok,
           sup if sup is not None else sst.ast, detail='' if ok else 'prologue differs', key='setstate-super')


def eqhash(cx, rule='EQHASH'):
    eq = Fn(cx, 'io.FCSFile.__eq__')
    o = eq.params[1]
    rets = [r for r in eq.stmts(ast.Return) if not (isinstance(r.value, ast.Name) and r.value.id == 'NotImplemented')]
    cx.need(len(rets) == 1, 'FCSFile.__eq__: expected one comparing return')
    got = sym.norm(rets[0].value)
    want = sym.norm('self.infile == O.infile and self.header == O.header and self.text == O.text and '
                    'np.array_equal(self.data, O.data) and self.analysis == O.analysis', env={'O': ('var', o)})
    ok = got == want
    eq.ob(rule, 'two files are equal iff path, header, keywords, every event (exactly) and analysis keywords are equal', ok, rets[0],
          detail='' if ok else 'compares %s' % sym.show(got), key='eq')
    g = [s for s in eq.stmts(ast.If) if sym.norm(s.test) == sym.norm('isinstance(%s, self.__class__)' % o)]
    g2 = [s for s in eq.stmts(ast.If) if sym.norm(s.test) == sym.norm('not isinstance(%s, self.__class__)' % o)
          and len(s.body) == 1 and isinstance(s.body[0], ast.Return) and sym.norm(s.body[0].value) == ('var', 'NotImplemented')]
    okc = (len(g) == 1 and eq.in_body_of(rets[0], g[0], 'body')) or \
        (len(g2) == 1 and eq.cfg.dominates(eq.cfg.assume[id(g2[0])][1], eq.node(rets[0])))
    eq.ob(rule, 'comparison applies to objects of the same class only', okc, (g + g2)[0] if (g or g2) else eq.ast, key='eq-class')
    ne = Fn(cx, 'io.FCSFile.__ne__')
    rets = [r for r in ne.stmts(ast.Return) if not (isinstance(r.value, ast.Name) and r.value.id == 'NotImplemented')]
    ok = len(rets) == 1 and sym.norm(rets[0].value) in (sym.norm('not self == %s' % ne.params[1]),
                                                         sym.norm('not self.__eq__(%s)' % ne.params[1]))
    ne.ob(rule, '!= is the negation of ==', ok, rets[0] if rets else ne.ast, key='ne')
    h = Fn(cx, 'io.FCSFile.__hash__')
    rets = h.stmts(ast.Return)
    cx.need(len(rets) == 1, 'FCSFile.__hash__: expected one return')
    got = sym.norm(rets[0].value)
    wants = [sym.norm(s) for s in (
        'hash((self.infile, self.header, frozenset(six.iteritems(self.text)), self.data.tobytes(), frozenset(six.iteritems(self.analysis))))',
        'hash((self.infile, self.header, frozenset(self.text.items()), self.data.tobytes(), frozenset(self.analysis.items())))')]
    ok = got in wants
    h.ob(rule, 'hash covers the same five components as equality', ok, rets[0],
         detail='' if ok else 'hashes %s' % sym.show(got), key='hash')
    # the five properties hand out the stored segments
    for p in ('infile', 'header', 'text', 'data', 'analysis'):
        f = Fn(cx, 'io.FCSFile.' + p)
        r = f.stmts(ast.Return)
        ok = len(r) == 1 and sym.norm(r[0].value) == sym.norm('self._' + p)
        f.ob(rule, 'FCSFile.%s is the parsed %s segment' % (p, p), ok, r[0] if r else f.ast, key='prop-' + p)


# ---------------------------------------------------------------------------
# GETITEM: the three metadata branches of __getitem__

def per_channel_attrs(cx):
    """Attributes indexed by channel position in some accessor method, plus _channels."""
    mod, cls = cx.repo.cls('io.FCSData')
    out = set()
    for f in cls.body:
        if isinstance(f, ast.FunctionDef) and not f.name.startswith('__'):
            for n in ast.walk(f):
                if isinstance(n, ast.Subscript) and isinstance(n.value, ast.Attribute) and dotted(n.value.value) == 'self' \
                        and n.value.attr.startswith('_') and isinstance(n.ctx, ast.Load):
                    if isinstance(n.slice, ast.Name):
                        out.add(n.value.attr)
    out.add('_channels')
    return out


def container_kinds(cx):
    fn, obj, st, mutable = constructor_attrs(cx)
    kinds = {}
    for a, ss in st.items():
        v = ss[0].value
        k = None
        if isinstance(v, ast.Name):
            for d, dv in fn.reaching_values(v.id, ss[0]):
                if isinstance(dv, ast.Call) and dotted(dv.func) == 'tuple':
                    k = 'tuple'
                elif isinstance(dv, (ast.List, ast.ListComp)):
                    k = 'list'
        kinds[a] = k
    return kinds


def key_names(cx, fn):
    """(channel-key variable, event-key variable, assembled-key variable) of __getitem__/__setitem__."""
    kc = None
    for st in fn.stmts(ast.Assign):
        if isinstance(st.targets[0], ast.Name) and isinstance(st.value, ast.Call) and dotted(st.value.func) == 'self._name_to_index' \
                and len(st.value.args) == 1 and dotted(st.value.args[0]) == st.targets[0].id:
            kc = st.targets[0].id
    cx.need(kc, '%s: no `<key> = self._name_to_index(<key>)`' % fn.qual)
    ke = ka = None
    for st in fn.stmts(ast.Assign):
        if isinstance(st.targets[0], ast.Name) and isinstance(st.value, ast.Tuple) and len(st.value.elts) == 2 \
                and dotted(st.value.elts[1]) == kc and isinstance(st.value.elts[0], ast.Name):
            ka, ke = st.targets[0].id, st.value.elts[0].id
    if ka is None:
        # the assembled key may be written in place: np.ndarray.__getitem__(self, (<event key>, <channel key>))
        for c in fn.calls():
            if (dotted(c.func) or '').endswith('ndarray.__getitem__') or (dotted(c.func) or '').endswith('ndarray.__setitem__'):
                for a in c.args:
                    if isinstance(a, ast.Tuple) and len(a.elts) == 2 and dotted(a.elts[1]) == kc and isinstance(a.elts[0], ast.Name):
                        ke, ka = a.elts[0].id, None
    cx.need(ke, '%s: no assembled key (<event key>, %s)' % (fn.qual, kc))
    return kc, ke, ka


def getitem_branches(cx, rule='GETITEM'):
    fn = Fn(cx, 'io.FCSData.__getitem__')
    KC, KE, KA = key_names(cx, fn)
    Ac = per_channel_attrs(cx)
    kinds = container_kinds(cx)
    cx.tables['per-channel attributes'] = sorted(Ac)
    cx.need(len(Ac) >= 7, 'FCSData: only %d per-channel attributes found' % len(Ac))
    stores = {}
    for st in fn.stmts(ast.Assign):
        t = st.targets[0]
        if isinstance(t, ast.Attribute) and isinstance(t.value, ast.Name) and t.attr.startswith('_'):
            # group by innermost enclosing If branch
            prev = st
            br = None
            for a in fn.ancestors(st):
                if isinstance(a, ast.If):
                    br = (id(a), 'body' if any(prev is x for x in a.body) else 'orelse', a)
                    break
                prev = a
            stores.setdefault(br[:2] if br else None, {'if': br[2] if br else None, 'items': []})['items'].append(st)
    cx.need(len(stores) == 3, 'FCSData.__getitem__: expected three metadata branches, found %d' % len(stores))
    nstores = 0
    seen_forms = set()
    for key, grp in stores.items():
        items = grp['items']
        base = items[0].targets[0].value.id
        attrs = [s.targets[0].attr for s in items]
        ok = set(attrs) == Ac and len(attrs) == len(set(attrs))
        fn.ob(rule, 'a metadata branch slices exactly the per-channel attributes, each once', ok, items[0],
              detail='' if ok else 'missing %s, extra %s, duplicates %s' % (sorted(Ac - set(attrs)), sorted(set(attrs) - Ac),
                                                                         sorted({a for a in attrs if attrs.count(a) > 1})),
              key='branch-set|%s' % key[1] + str(sorted(attrs) == sorted(Ac)))
        # the form of this branch is decided by its first store
        forms = None
        for s in items:
            a = s.targets[0].attr
            nstores += 1
            cont = kinds.get(a) or 'tuple'
            v = sym.norm(s.value)
            kc = KC
            cand = {
                'iter': sym.norm(('tuple([B.A[kc] for kc in K])' if cont == 'tuple' else '[B.A[kc] for kc in K]')
                                 .replace('B', base).replace('.A[', '.%s[' % a).replace('K', kc)),
                'slice': sym.norm('%s.%s[%s]' % (base, a, kc)),
                'scalar': sym.norm(('tuple([%s.%s[%s]])' if cont == 'tuple' else '[%s.%s[%s]]') % (base, a, kc)),
            }
            which = [k for k, w in cand.items() if w == v]
            okw = len(which) == 1
            if okw:
                forms = forms or which[0]
                okw = which[0] == forms
            fn.ob(rule, 'attribute %s of the result is the same attribute of the same object, restricted to the selected channels, kept as a %s' % (a, cont),
                  okw, s, detail='' if okw else '`%s` (cross-wired, wrong container or wrong key)' % norm_stmt(s),
                  key='wire|%s|%s' % (key[1], a))
        seen_forms.add(forms)
        # the branch condition matches the form
        ifn = grp['if']
        want = {'iter': "hasattr(%s, '__iter__')" % KC, 'slice': 'isinstance(%s, slice)' % KC}
        if forms in want and key[1] == 'body':
            okc = sym.norm(ifn.test) == sym.norm(want[forms])
            fn.ob(rule, 'the %s branch is entered exactly for that kind of channel key' % forms, okc, ifn,
                  detail='' if okc else 'test is `%s`' % norm_stmt(ifn.test), key='branch-test|' + str(forms))
    ok = seen_forms == {'iter', 'slice', 'scalar'}
    fn.ob(rule, 'the three branches are: list of positions, slice, single position', ok, fn.ast, detail=str(sorted(map(str, seen_forms))),
          key='branch-forms')
    cx.floor(rule, nstores, 21, 'attribute stores in __getitem__')
    # the object whose attributes are sliced is the result of ndarray.__getitem__ with the translated key
    base = list(stores.values())[0]['items'][0].targets[0].value.id
    defs = [d for d in fn.cfg.nodes if base in fn.rd.gen[d.id]]
    vals = [sym.norm(fn.rd.assigned_value(d, base)) for d in defs if fn.rd.assigned_value(d, base) is not None]
    want = sym.norm('np.ndarray.__getitem__(self, (%s, %s))' % (KE, KC))
    ok = any(fn.eqv(fn.rd.assigned_value(d, base), want) is not None for d in defs if fn.rd.assigned_value(d, base) is not None)
    fn.ob(rule, 'values come from NumPy\'s own indexing with the key (event key unchanged, translated channel key)', ok,
          defs[0].ast if defs else fn.ast, key='numpy-call')
    ke = [sym.norm(v) for d, v in fn.reaching_values(KE, defs[0].ast) if v is not None] if defs else []
    ok = ke == [sym.norm('%s[0]' % fn.params[1])]
    fn.ob(rule, 'the event key is passed through unchanged', ok, fn.ast, key='key-event')
    # translation of the channel key: untouched for a slice, _name_to_index otherwise
    kcd = fn.reaching_values(KC, defs[0].ast) if defs else []
    vals = sorted(sym.show(sym.norm(v)) for d, v in kcd if v is not None)
    want = sorted([sym.show(sym.norm('%s[1]' % fn.params[1])), sym.show(sym.norm('self._name_to_index(%s)' % KC))])
    ok = vals == want
    fn.ob(rule, 'the channel key is translated by _name_to_index unless it is a slice', ok, fn.ast, detail=str(vals), key='key-channel')
    tr = [st for st in fn.stmts(ast.If) if sym.norm(st.test) == sym.norm('not isinstance(%s, slice)' % KC)]
    ok = len(tr) == 1 and len(tr[0].body) == 1 and not tr[0].orelse
    fn.ob(rule, 'only a slice escapes translation', ok, tr[0] if tr else fn.ast, key='slice-escape')
    # scalar early return precedes every attribute store
    er = [r for r in fn.stmts(ast.Return) if any(isinstance(a, ast.If) and sym.norm(a.test) == sym.norm("not hasattr(%s, '__iter__')" % base)
                                                  for a in fn.ancestors(r))]
    ok = len(er) == 1 and sym.norm(er[0].value) == ('var', base)
    if ok:
        for grp in stores.values():
            for s in grp['items']:
                ok = ok and not fn.cfg.reaches_avoiding(fn.node(s), fn.node(er[0]), [])
    fn.ob(rule, 'a single selected value is returned as a plain scalar before any metadata is touched', ok, er[0] if er else fn.ast,
          key='scalar-return')
    return fn


def name_to_index_shape(cx, rule='GETITEM'):
    """_name_to_index: names through the *current* channel tuple, positions bounds-checked, rest refused."""
    fn = Fn(cx, 'io.FCSData._name_to_index')
    p = fn.params[1]
    rets = fn.stmts(ast.Return)
    got = sorted(sym.show(fn.nf(r.value, at=r, stop=(p,))) for r in rets)
    want = sorted(sym.show(sym.norm(s)) for s in ('[self._name_to_index(ch) for ch in %s]' % p, 'self.channels.index(%s)' % p, p))
    alt = sorted(sym.show(sym.norm(s)) for s in ('[self._name_to_index(ch) for ch in %s]' % p, 'self._channels.index(%s)' % p, p))
    ok = got in (want, alt)
    fn.ob(rule, 'a name is translated by its position in the current channel tuple, a position is returned unchanged, an iterable element-wise in order',
          ok, fn.ast, detail='' if ok else 'returns: %s' % got, key='returns')
    stores = []
    for s_ in fn.stmts((ast.Assign, ast.AugAssign)):
        for t in (s_.targets if isinstance(s_, ast.Assign) else [s_.target]):
            if not isinstance(t, ast.Name) or t.id in fn.params or isinstance(s_, ast.AugAssign):
                stores.append(s_)
    glob = fn.stmts((ast.Global, ast.Nonlocal))
    fn.ob(rule, 'translation keeps no state and does not rewrite its argument (only plain local temporaries are assigned)',
          not stores and not glob, (stores + glob)[0] if (stores or glob) else fn.ast,
          detail='' if not (stores or glob) else '`%s`' % norm_stmt((stores + glob)[0]), key='stateless')
    # the channels property hands out the stored tuple
    ch = Fn(cx, 'io.FCSData.channels')
    r = ch.stmts(ast.Return)
    ok = len(r) == 1 and sym.norm(r[0].value) == sym.norm('self._channels')
    ch.ob(rule, 'channels is the stored channel tuple', ok, r[0] if r else ch.ast, key='channels-prop')


def accessors(cx, rule='GETITEM'):
    """The six per-channel accessors share one body up to the attribute they read."""
    names = {'amplification_type': '_amplification_type', 'detector_voltage': '_detector_voltage',
             'amplifier_gain': '_amplifier_gain', 'channel_labels': '_channel_labels', 'range': '_range',
             'resolution': '_resolution'}
    from ..rules import inventory
    n = 0
    for m, a in names.items():
        fn = Fn(cx, 'io.FCSData.' + m)
        before = len(cx.violations)
        inventory(fn, rule, [
            ('accessor %s(): no channel given means all channels' % m, 'if channels is None:'),
            ('accessor %s(): ... all channels' % m, 'channels = self._channels'),
            ('accessor %s(): names are translated to positions' % m, 'channels = self._name_to_index(channels)'),
            ('accessor %s(): several channels are told from one' % m,
             "if hasattr(channels, '__iter__') and (not isinstance(channels, six.string_types)):"),
            ('accessor %s() returns %s of exactly the asked channels, in the asked order' % (m, a), 'return [self.%s[CH] for CH in channels]' % a),
            ('accessor %s() returns %s of the one asked channel' % (m, a), 'return self.%s[channels]' % a),
        ], ['CH'])
        n += 1
        stores = [s_ for s_, t in subscript_stores(fn)]
        fn.ob(rule, 'accessor %s() stores nothing' % m, not stores, stores[0] if stores else fn.ast, key='accessor-pure-' + m)
    cx.floor(rule, n, 6, 'accessors')
