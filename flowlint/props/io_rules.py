"""Shared rules over FlowCal/io.py FCSData.__new__ (used by C03, C17)."""
import ast

from ..core import AnalysisError, norm_stmt
from ..rules import Fn, names_in, strings_in, subscript_stores
from .. import sym
from ..sym import dotted


def text_lookups(fn):
    """All lookups of TEXT keywords in a function: (node, kind 'get'|'index'|'in', key expression)."""
    out = []
    for n in fn.walk(into_nested=True):
        if isinstance(n, ast.Call) and isinstance(n.func, ast.Attribute) and n.func.attr == 'get' \
                and (dotted(n.func.value) or '').endswith('text') and n.args:
            out.append((n, 'get', n.args[0]))
        elif isinstance(n, ast.Subscript) and (dotted(n.value) or '').endswith('text') and isinstance(n.ctx, ast.Load):
            out.append((n, 'index', n.slice))
        elif isinstance(n, ast.Compare) and len(n.ops) == 1 and isinstance(n.ops[0], (ast.In, ast.NotIn)) \
                and (dotted(n.comparators[0]) or '').endswith('text'):
            out.append((n, 'in', n.left))
    return out


def key_template(e):
    """'$P{}E'.format(i) -> ('$P{}E', <arg normal forms>) ; 'CREATOR' -> ('CREATOR', ())"""
    if isinstance(e, ast.Constant) and isinstance(e.value, str):
        return e.value, ()
    if isinstance(e, ast.Call) and isinstance(e.func, ast.Attribute) and e.func.attr == 'format' \
            and isinstance(e.func.value, ast.Constant) and isinstance(e.func.value.value, str):
        return e.func.value.value, tuple(sym.norm(a) for a in e.args)
    if isinstance(e, ast.BinOp) and isinstance(e.op, ast.Mod) and isinstance(e.left, ast.Constant):
        return e.left.value, (sym.norm(e.right),)
    return None, ()


def amplification_type_parsing(cx):
    fn = Fn(cx, 'io.FCSData.__new__')
    # the fix-up: a store `X[1] = 1` guarded by `X[0] != 0 and X[1] == 0`
    fix = []
    for st, tgt in subscript_stores(fn):
        if isinstance(tgt, ast.Subscript) and isinstance(tgt.value, ast.Name) and sym.norm(tgt.slice) == ('num', 1) \
                and isinstance(st, ast.Assign):
            fix.append((st, tgt.value.id))
    cx.need(len(fix) == 1, 'io.FCSData.__new__: expected exactly one zero-offset fix-up store, found %d' % len(fix))
    st, X = fix[0]
    ok = sym.norm(st.value) == ('num', 1)
    g = [a for a in fn.ancestors(st) if isinstance(a, ast.If)]
    cond = g and fn.in_body_of(st, g[0], 'body') and \
        sym.norm(g[0].test) == sym.norm('%s[0] != 0 and %s[1] == 0' % (X, X))
    fn.ob('FORMULA', 'a log amplifier (a0 != 0) with the non-standard offset 0 is read with offset 1, and only then',
          bool(ok and cond), g[0] if g else st,
          detail='' if ok and cond else 'fix-up is `%s` under `%s`' % (norm_stmt(st), norm_stmt(g[0].test) if g else 'no test'),
          key='a1-fixup')
    # X comes from the $PnE keyword of the loop's channel: split on ',' and float()
    loop = [a for a in fn.ancestors(st) if isinstance(a, ast.For)]
    cx.need(loop, 'io.FCSData.__new__: amplification parsing is not in a per-channel loop')
    loop = loop[0]
    keys = [key_template(k) for n, kind, k in text_lookups(fn) if any(a is loop for a in fn.ancestors(n))]
    lv = sym.norm(loop.target)
    ok = ('$P{}E', (lv,)) in keys or ('$P{0}E', (lv,)) in keys or ('$P%dE', (lv,)) in keys
    fn.ob('TABLE', 'amplification type of channel n is read from $PnE', ok, loop,
          detail='' if ok else 'keys read in the loop: %s' % [k for k, _ in keys], key='$PnE')
    rng = sym.norm(loop.iter)
    nch = None
    pat = sym.parse_pattern("NCH = int(F.text['$PAR'])")
    for a in fn.stmts(ast.Assign):
        b = sym.unify(pat, sym.stmt_nf(a), {}, {'NCH', 'F'})
        if b is not None:
            nch = b['NCH'][1]
    okr = nch is not None and rng == sym.norm('range(1, %s + 1)' % nch)
    fn.ob('TABLE', 'channel loop covers parameters 1..$PAR', okr, loop, detail='' if okr else sym.show(rng), key='$PnE-range')
    conv = [sym.norm(a.value) for a in fn.stmts(ast.Assign, loop) if isinstance(a.targets[0], ast.Name) and a.targets[0].id == X]
    want = [sym.norm("%s.split(',')" % X), sym.norm('[float(q) for q in %s]' % X, keep_casts=True), sym.norm('tuple(%s)' % X)]
    have = [sym.norm(a.value, keep_casts=True) for a in fn.stmts(ast.Assign, loop)
            if isinstance(a.targets[0], ast.Name) and a.targets[0].id == X]
    ok = all(w in have for w in want)
    fn.ob('TABLE', '$PnE is split on commas into floats and stored as a tuple', ok, loop,
          detail='' if ok else 'conversions: %s' % [sym.show(h) for h in have], key='$PnE-parse')
    return fn
