"""Rules over the FCS segment readers of FlowCal/io.py (C01, C14, C16)."""
import ast

from ..core import AnalysisError, norm_stmt
from ..rules import (handler_types, Fn, guards, guard_dominates, names_in, strings_in, kwarg, is_none_test,
                     inventory, subscript_stores, always_raises, raised_types, if_chain, block_of)
from ..cfg import target_names, root_name
from .. import sym
from ..sym import dotted

INIT = 'io.FCSFile.__init__'
DATA = 'io.read_fcs_data_segment'
TEXT = 'io.read_fcs_text_segment'
HEAD = 'io.read_fcs_header_segment'


def text_key(e):
    """self._text['$X'] -> '$X'"""
    if isinstance(e, ast.Subscript) and dotted(e.value) == 'self._text' and isinstance(e.slice, ast.Constant):
        return e.slice.value
    return None


def decode_sites(cx, fn):
    sites = fn.calls('read_fcs_data_segment')
    cx.need(1 <= len(sites) <= 2, INIT + ': expected one or two read_fcs_data_segment call sites, found %d' % len(sites))
    return sites


# ---------------------------------------------------------------------------
# C01 / C16: layout refusals and the two decode call sites

def init_locals(cx, fn, sites):
    """Local names of FCSFile.__init__ read off the decode call site: bit widths, ranges, endianness, $PAR."""
    out = {}
    for k in ('param_bit_widths', 'param_ranges', 'big_endian'):
        v = kwarg(sites[0], k)
        cx.need(isinstance(v, ast.Name), INIT + ': decode argument %s is not a local name' % k)
        out[k] = v.id
    pat = sym.parse_pattern("PBW = [int(self._text['$P{0}B'.format(P)]) for P in range(1, D + 1)]", sym.Normalizer(keep_casts=True))
    d = None
    for a in fn.stmts(ast.Assign):
        b = sym.unify(pat, sym.stmt_nf(a, sym.Normalizer(keep_casts=True)), {'PBW': ('var', out['param_bit_widths'])}, {'PBW', 'P', 'D'})
        if b is not None:
            d = b['D'][1]
    out['D'] = d or 'D'
    return out


def layout_refusals(cx):
    fn = Fn(cx, INIT)
    sites = decode_sites(cx, fn)
    L = init_locals(cx, fn, sites)
    specs = [
        ('histogram mode ($MODE other than L) is refused', "self._text['$MODE'] != 'L'", None),
        ('data types other than I, F, D are refused', "self._text['$DATATYPE'] not in ('I', 'F', 'D')", None),
        ('byte orders other than 4,3,2,1 / 2,1 / 1,2,3,4 / 1,2 are refused',
         "self._text['$BYTEORD'] not in ('4,3,2,1', '2,1', '1,2,3,4', '1,2')", None),
        ('integer parameters that are not byte aligned are refused', "not all(bw %% 8 == 0 for bw in %s)" % L['param_bit_widths'],
         "self._text['$DATATYPE'] == 'I'"),
    ]
    for inst, test, enabling in specs:
        want = sym.norm(test)
        gs = [(g, p) for g, p in guards(fn, exc=['NotImplementedError']) if sym.norm(g.test) == want and not p]
        if enabling is not None and not gs:
            # one test `enabling and refused-condition` (the canonical spelling of the nested form): its passing
            # outcome covers "not enabled" as well, so plain dominance of the decode sites is what is needed
            wm = sym.norm('(%s) and (%s)' % (enabling, test))
            gm = [(g, p) for g, p in guards(fn, exc=['NotImplementedError']) if sym.norm(g.test) == wm and not p]
            ok = len(gm) == 1 and all(guard_dominates(fn, gm[0][0], False, s_) for s_ in sites)
            fn.ob('GUARD', inst + ' (NotImplementedError) before any decoding', ok, gm[0][0] if gm else fn.ast,
                  detail='' if ok else 'no dominating refusal of the form `%s`' % test, key=inst)
            continue
        ok = len(gs) == 1
        if ok:
            g = gs[0][0]
            if enabling is None:
                ok = all(guard_dominates(fn, g, False, s) for s in sites)
            else:
                # conditional dominance: the guard sits directly under the enabling test, which dominates the sinks
                en = [a for a in fn.ancestors(g) if isinstance(a, ast.If)]
                ok = bool(en) and sym.norm(en[0].test) == sym.norm(enabling) and fn.in_body_of(g, en[0], 'body') \
                    and all(fn.cfg.dominates(fn.cfg.node_of(en[0]), fn.node(s)) for s in sites) \
                    and not fn.cfg.reaches_avoiding(fn.cfg.assume[id(en[0])][0], fn.node(sites[0]), [fn.cfg.assume[id(g)][1]])
        fn.ob('GUARD', inst + ' (NotImplementedError) before any decoding', ok, gs[0][0] if gs else fn.ast,
              detail='' if ok else 'no dominating refusal of the form `%s`' % test, key=inst)
    # endianness derived from the same keyword the guard tested
    be = [st for st in fn.stmts(ast.Assign) if isinstance(st.targets[0], ast.Name) and st.targets[0].id == L['big_endian']]
    ok = len(be) == 1 and sym.norm(be[0].value) == sym.norm("self._text['$BYTEORD'] in ('4,3,2,1', '2,1')")
    fn.ob('FORMULA', 'big-endian iff $BYTEORD is 4,3,2,1 or 2,1', ok, be[0] if be else fn.ast, key='big-endian')
    return fn, sites


def decode_callargs(cx):
    fn = Fn(cx, INIT)
    sites = decode_sites(cx, fn)
    L = init_locals(cx, fn, sites)
    common = ['buf', 'datatype', 'num_events', 'param_bit_widths', 'param_ranges', 'big_endian']
    allp = common + ['begin', 'end']
    # arguments bound by keyword or, through the decoder's own parameter list, by position
    kws = [{a: kwarg(s, a) for a in allp if kwarg(s, a) is not None} for s in sites]
    ok = all(set(k) == set(allp) for k in kws) and all(len(s.args) + len(s.keywords) == len(allp) and
                                                        not any(isinstance(a, ast.Starred) for a in s.args) and
                                                        all(k.arg for k in s.keywords) for s in sites)
    fn.ob('CALLARGS', 'both decode call sites pass the full argument set by keyword', ok, sites[0], key='kwset')
    if not ok:
        return fn
    for a in common:
        same = all(sym.norm(kws[0][a]) == sym.norm(k_[a]) for k_ in kws[1:])
        fn.ob('CALLARGS', 'HEADER-offset and TEXT-offset decoding agree on %s' % a, same, kws[-1][a],
              detail='' if same else 'sites differ on %s' % a, key='agree-' + a)
    want = {
        'datatype': "self._text['$DATATYPE']", 'num_events': "int(self._text['$TOT'])",
        'param_bit_widths': L['param_bit_widths'], 'param_ranges': L['param_ranges'], 'big_endian': L['big_endian'],
    }
    for a, w in want.items():
        ok = sym.norm(kws[0][a], keep_casts=True) == sym.norm(w, keep_casts=True)
        fn.ob('CALLARGS', 'decode argument %s is %s' % (a, w), ok, kws[0][a], key='value-' + a)
    # definitions of the per-parameter lists
    for nm, spec in (('param_bit_widths', "[int(self._text['$P{0}B'.format(p)]) for p in range(1, %s + 1)]" % L['D']),
                     ('param_ranges', "[float(self._text['$P{0}R'.format(p)]) for p in range(1, %s + 1)]" % L['D'])):
        d = [st for st in fn.stmts(ast.Assign) if isinstance(st.targets[0], ast.Name) and st.targets[0].id == L[nm]]
        ok = len(d) == 1 and sym.norm(d[0].value, keep_casts=True) == sym.norm(spec, keep_casts=True)
        fn.ob('FORMULA', '%s lists $PnB / $PnR of parameters 1..$PAR in order' % nm, ok, d[0] if d else fn.ast, key='def-' + nm)
    d = [st for st in fn.stmts(ast.Assign) if isinstance(st.targets[0], ast.Name) and st.targets[0].id == L['D']]
    ok = len(d) == 1 and sym.norm(d[0].value, keep_casts=True) == sym.norm("int(self._text['$PAR'])", keep_casts=True)
    fn.ob('FORMULA', 'the parameter count is $PAR', ok, d[0] if d else fn.ast, key='def-D')
    # provenance of the offsets handed to the decoder, whether there is one call per source or one call fed by
    # variables: (begin, end) pairs that can reach a call, with the conditions under which they were chosen
    from ..rules import run_context, expand_temps_ast
    H = (sym.norm('self._header.data_begin'), sym.norm('self._header.data_end'))
    T = (sym.norm("int(self._text['$BEGINDATA'])"), sym.norm("int(self._text['$ENDDATA'])"))

    def sources(site, arg):
        """[(normal form of the value, statement that chose it)]"""
        e = kwarg(site, arg)
        if isinstance(e, ast.Name) and e.id not in fn.params:
            out = []
            for d in fn.rd.reaching(fn.node(site), e.id):
                v = fn.rd.assigned_value(d, e.id) if d.kind != 'entry' else None
                out.append((fn.nf(v, at=d.ast) if v is not None else None, d.ast if d.kind != 'entry' else None))
            return out
        return [(sym.norm(e), fn.cfg.stmt_of(site))]
    pairs = []
    for s_ in sites:
        bs, es = sources(s_, 'begin'), sources(s_, 'end')
        for bv, bst in bs:
            for ev, est in es:
                cb = run_context(fn, bst, None, resolved=True) if bst is not None else None
                ce = run_context(fn, est, None, resolved=True) if est is not None else None
                if cb == ce:
                    pairs.append((bv, ev, bst, s_, set(cb or [])))
    hp = [p_ for p_ in pairs if (p_[0], p_[1]) == H]
    tp = [p_ for p_ in pairs if (p_[0], p_[1]) == T]
    other = [p_ for p_ in pairs if p_ not in hp and p_ not in tp]
    lit_h = {'when ' + sym.show(H[0]), 'when ' + sym.show(H[1])}
    ok = len(hp) == 1 and lit_h <= hp[0][4] and not other
    fn.ob('CALLARGS', 'DATA offsets of the HEADER are used (with priority) when both are non-zero', ok, hp[0][2] if hp else fn.ast,
          detail='' if ok else 'offset pairs reaching the decoder: %d from HEADER, %d from TEXT, %d other' % (len(hp), len(tp), len(other)),
          key='header-offsets')
    ok2 = len(tp) == 1 and not other
    if ok2:
        bv, ev, dst, site_, ctx_ = tp[0]
        ver = 'when ' + sym.show(sym.norm("self._header.version in ('FCS3.0', 'FCS3.1')"))
        noth = 'when ' + sym.show(sym.negate_deep(sym.norm('self._header.data_begin and self._header.data_end')))
        ok2 = ver in ctx_ and noth in ctx_
        # both TEXT offsets are non-zero before they are used: the call sits under `if b and e`, or a refusal
        # (ValueError) of `not (b and e)` lies on every path from their definition to the call
        if ok2:
            sc = set(run_context(fn, fn.cfg.stmt_of(site_), None, resolved=True) or [])
            truth = {'when ' + sym.show(bv), 'when ' + sym.show(ev)}
            okt = truth <= sc
            if not okt:
                bname, ename = kwarg(site_, 'begin'), kwarg(site_, 'end')
                for g, p_ in guards(fn, exc=['ValueError']):
                    if p_ is False and isinstance(bname, ast.Name) and isinstance(ename, ast.Name) and \
                            sym.norm(g.test) in (sym.norm('not (%s and %s)' % (bname.id, ename.id)),
                                                 sym.negate_deep(sym.norm('%s and %s' % (bname.id, ename.id)))):
                        passing = fn.cfg.assume[id(g)][1]
                        if fn.cfg.dominates(fn.node(dst), fn.cfg.node_of(g)) and \
                                not fn.cfg.reaches_avoiding(fn.node(dst), fn.node(site_), [passing]):
                            okt = True
            ok2 = okt
    fn.ob('CALLARGS', 'otherwise, for FCS 3.x, $BEGINDATA/$ENDDATA are used; anything else is refused (ValueError)', ok2,
          tp[0][2] if tp else fn.ast, key='text-offsets')
    # no way to a decode call but through one of the two sources
    for s_ in sites:
        chosen = [fn.node(p_[2]) for p_ in hp + tp if p_[3] is s_ and p_[2] is not None]
        okp = bool(chosen) and not fn.cfg.reaches_avoiding(fn.cfg.entry, fn.node(s_), chosen)
        fn.ob('CALLARGS', 'a decode call is reached only with offsets taken from the HEADER or from $BEGINDATA/$ENDDATA', okp, s_,
              key='offsets-only|%d' % sites.index(s_))
    # result stored and made read-only
    for s in sites:
        par = fn.parent.get(id(s))
        ok = isinstance(par, ast.Assign) and sym.norm(par.targets[0]) == sym.norm('self._data')
        fn.ob('REACH', 'the decoded array is what the file object exposes', ok, s, key='store-data')
    return fn


def header_fields(cx):
    """HEADER: seven fields, read in order from the begin offset: 10 bytes of version, then six 8-byte fields; the
    two ANALYSIS offsets read blank as 0.  The field list handed to the named tuple is either filled by appends or
    a list of locals: each element is traced back to the read it comes from, and the k-th element must come from
    the k-th read."""
    fn = Fn(cx, HEAD)
    buf = fn.params[0]
    reads = [c for c in fn.calls() if isinstance(c.func, ast.Attribute) and c.func.attr == 'read' and dotted(c.func.value) == buf]
    reads.sort(key=lambda c: (c.lineno, c.col_offset))
    mk = [c for c in fn.calls() if isinstance(c.func, ast.Attribute) and c.func.attr == '_make']
    elems = []      # (element expression, statement where it is evaluated)
    site = fn.ast
    if len(mk) == 1 and mk[0].args:
        arg = mk[0].args[0]
        site = mk[0]
        if isinstance(arg, ast.List):
            elems = [(e, fn.cfg.stmt_of(mk[0])) for e in arg.elts]
        elif isinstance(arg, ast.Name):
            defs = [d for d in fn.rd.reaching(fn.node(mk[0]), arg.id)]
            if len(defs) == 1 and isinstance(defs[0].ast, ast.Assign) and isinstance(defs[0].ast.value, ast.List):
                lst = defs[0].ast
                elems = [(e, lst) for e in lst.value.elts]
                aps = [st for st in fn.stmts(ast.Expr) if isinstance(st.value, ast.Call) and isinstance(st.value.func, ast.Attribute)
                       and st.value.func.attr == 'append' and dotted(st.value.func.value) == arg.id]
                aps.sort(key=lambda s_: s_.lineno)
                elems += [(a_.value.args[0], a_) for a_ in aps]

    def origin(expr, at, depth=0):
        """the buf.read call an element's value comes from"""
        rs = [c for c in ast.walk(expr) if any(c is r for r in reads)]
        if rs:
            return rs[0]
        if depth > 4:
            return None
        for nm in [n for n in ast.walk(expr) if isinstance(n, ast.Name) and isinstance(n.ctx, ast.Load)]:
            ds = list(fn.rd.reaching(fn.node(at), nm.id))
            if len(ds) == 1 and ds[0].kind != 'entry':
                v = fn.rd.assigned_value(ds[0], nm.id)
                if v is not None:
                    r = origin(v, ds[0].ast, depth + 1)
                    if r is not None:
                        return r
        return None
    got = [fn.nf(e, at=st_, stop=()) for e, st_ in elems]
    rd8 = '%s.read(8)' % buf
    want = [sym.norm('%s.read(10).decode(encoding).rstrip()' % buf)] + [sym.norm('int(%s)' % rd8, keep_casts=False)] * 4
    order = [origin(e, st_) for e, st_ in elems]
    in_order = len(order) == 7 and len(reads) == 7 and all(o is r for o, r in zip(order, reads))
    sizes = [sym.norm(r.args[0]) if r.args else None for r in reads] == [('num', 10)] + [('num', 8)] * 6
    ok = len(got) == 7 and got[:5] == want and in_order and sizes
    fn.ob('FORMULA', 'HEADER: 10 bytes of version, then TEXT begin/end and DATA begin/end as 8-byte integers, in this order', ok,
          site, detail='' if ok else str([sym.show(g) for g in got[:5]]), key='header-fixed')
    # analysis offsets: blank -> 0
    ok = len(got) == 7 and in_order
    if ok:
        for g in got[5:]:
            ok = ok and g[0] == 'ifexp' and g[2] == ('num', 0)
    fn.ob('FORMULA', 'HEADER: ANALYSIS offsets follow, blank fields read as 0', ok, site, key='header-analysis')
    flds = [st for st in fn.stmts(ast.Assign) if isinstance(st.value, ast.List) and st.value.elts and all(isinstance(e, ast.Constant) for e in st.value.elts)]
    ok = bool(flds) and [e.value for e in flds[0].value.elts] == ['version', 'text_begin', 'text_end', 'data_begin', 'data_end',
                                                                  'analysis_begin', 'analysis_end']
    fn.ob('FORMULA', 'HEADER fields are named in the order they are read', ok, flds[0] if flds else fn.ast, key='header-names')
    sk = [c for c in fn.calls() if isinstance(c.func, ast.Attribute) and c.func.attr == 'seek']
    ok = len(sk) == 1 and sym.norm(sk[0]) == sym.norm('%s.seek(begin)' % buf) and all(sk[0].lineno < r.lineno for r in reads)
    fn.ob('FORMULA', 'HEADER is read from its begin offset', ok, sk[0] if sk else fn.ast, key='header-seek')
    # ... on every call (whatever the offset and the current position of the buffer), and every field is read on every call
    if sk:
        fn.ctx_ob('FORMULA', 'the buffer is positioned at the HEADER begin offset', fn.cfg.stmt_of(sk[0]))
    for i, r in enumerate(reads[:7]):
        fn.ctx_ob('FORMULA', 'HEADER field %d is read' % (i + 1), fn.cfg.stmt_of(r))
    return fn


DECODE_ITEMS = [
    ('number of parameters is the number of bit widths', 'NP = len(param_bit_widths)'),
    ('array shape is (events, parameters)', 'SHAPE = (int(num_events), NP)'),
    ('uniform widths 8/16/32/64 take the direct path',
     'if all(bw == 8 for bw in param_bit_widths) or all(bw == 16 for bw in param_bit_widths) or all(bw == 32 for bw in param_bit_widths) or all(bw == 64 for bw in param_bit_widths):'),
    ('uniform path: width is the common bit width', 'NB = param_bit_widths[0]'),
    ('uniform path: unsigned dtype with the file\'s byte order and width',
     "DT = np.dtype('{0}u{1}'.format('>' if big_endian else '<', NB // 8))"),
    ('mixed widths: non byte-aligned or wider than 64 bits refused',
     'if not all(bw % 8 == 0 for bw in param_bit_widths) or any(bw > 64 for bw in param_bit_widths):'),
    ('mixed widths: bytes per event = sum of widths / 8', 'BSHAPE = (int(num_events), np.sum(np.array(param_bit_widths) // 8))'),
    ('mixed widths: result type is the next power-of-two width', 'UBW = int(2 ** np.max(np.ceil(np.log2(param_bit_widths))))'),
    ('mixed widths: result dtype', "UDT = 'u{0}'.format(UBW // 8)"),
    ('mixed widths: result starts at zero', 'DATAV = np.zeros(SHAPE, dtype=UDT)'),
    ('mixed widths: first byte of each parameter = sum of the widths before it', 'BB = np.roll(np.cumsum(param_bit_widths) // 8, 1)'),
    ('mixed widths: first parameter starts at byte 0', 'BB[0] = 0'),
    ('mixed widths: every parameter column is assembled', 'for COL in range(DATAV.shape[1]):'),
    ('mixed widths: bytes of this parameter', 'NBY = param_bit_widths[COL] // 8'),
    ('mixed widths: every byte of the parameter is used', 'for B in range(NBY):'),
    ('mixed widths: source byte column', 'BDC = BB[COL] + B'),
    ('mixed widths: byte significance follows the byte order', 'SH = NBY - B - 1 if big_endian else B'),
    ('mixed widths: shifted bytes are accumulated (upcast first)', 'DATAV[:, COL] += BYTES[:, BDC].astype(UDT) << SH * 8'),
    ('mixed widths: the least significant byte is accumulated', 'DATAV[:, COL] += BYTES[:, BDC]'),
    ('range mask: every parameter column is masked', 'for COL2 in range(DATAV.shape[1]):'),
    ('uniform path: the DATA bytes are mapped with that dtype and shape',
     "DATAV = np.memmap(buf, dtype=DT, mode='r', offset=begin, shape=SHAPE, order='C')"),
    ('uniform path: the map is copied into memory', 'DATAV = np.array(DATAV)'),
    ('float path: the DATA bytes are mapped with that dtype and shape',
     "DATAV = np.memmap(buf, dtype=DT, mode='r', offset=begin, shape=SHAPE, order='C')"),
    ('float path: the map is copied into memory', 'DATAV = np.array(DATAV)'),
    ('mixed widths: the DATA bytes are mapped as single bytes',
     "BYTES = np.memmap(buf, dtype='uint8', mode='r', offset=begin, shape=BSHAPE, order='C')"),
    ('range mask: bits used = ceil(log2(range))', 'BITS = int(np.ceil(np.log2(param_ranges[COL2])))'),
    ('range mask: low BITS bits set', 'MASK = ~(~0 << BITS)'),
    ('range mask applied to the parameter column', 'DATAV[:, COL2] &= MASK'),
    ('float path: width from the data type', "NB = 32 if datatype == 'F' else 64"),
    ('float path: all widths must equal it', 'if not all(bw == NB for bw in param_bit_widths):'),
    ('float path: float dtype with the file\'s byte order and width',
     "DT = np.dtype('{0}f{1}'.format('>' if big_endian else '<', NB // 8))"),
    ('the decoded array is returned', 'return DATAV'),
]
DECODE_METAS = {m: m for m in ['NP', 'SHAPE', 'NB', 'DT', 'BSHAPE', 'UBW', 'UDT', 'DATAV', 'BB', 'COL', 'NBY', 'B', 'BDC', 'SH',
                                'BYTES', 'BITS', 'MASK']}
DECODE_METAS['COL2'] = 'COL'      # the two column loops may (but need not) reuse one loop variable


def decode_inventory(cx):
    fn = Fn(cx, DATA)
    b = inventory(fn, 'FORMULA', DECODE_ITEMS, DECODE_METAS)
    # dispatch on the data type is exhaustive and ends in refusals
    chain = [st for st in fn.ast.body if isinstance(st, ast.If) and 'datatype' in names_in(st.test)]
    ok = len(chain) == 1
    if ok:
        blk, i = block_of(fn, chain[0])
        links, els = if_chain(blk, i)
        tests = [sym.norm(t) for t, b, s_ in links]
        bodies = [b for t, b, s_ in links]
        # the statements after the chain (the final `return`) are not part of the else branch
        els = [x for x in els if not isinstance(x, ast.Return)]
        ok = tests == [sym.norm("datatype == 'I'"), sym.norm("datatype in ('F', 'D')"), sym.norm("datatype == 'A'")] \
            and always_raises(bodies[2]) and 'NotImplementedError' in raised_types(bodies[2]) \
            and always_raises(els) and 'ValueError' in raised_types(els)
    fn.ob('GUARD', 'data type dispatch: I, F/D decoded; A refused (NotImplementedError); anything else refused (ValueError)', ok,
          chain[0] if chain else fn.ast, key='dispatch')
    # range mask only for integers and only when ranges are given
    ms = [st for st in fn.stmts(ast.AugAssign) if isinstance(st.op, ast.BitAnd)]
    ok = len(ms) == 1 and chain and fn.in_body_of(ms[0], chain[0], 'body') and \
        any(isinstance(a, ast.If) and sym.norm(a.test) == sym.norm('param_ranges is not None') for a in fn.ancestors(ms[0]))
    if ok:
        lp = [a for a in fn.ancestors(ms[0]) if isinstance(a, ast.For)]
        ok = bool(lp) and 'range' in ast.unparse(lp[0].iter) and '.shape[1]' in ast.unparse(lp[0].iter)
    fn.ob('FORMULA', 'the range mask is applied to every integer parameter when ranges are known, never to floats', ok,
          ms[0] if ms else fn.ast, key='mask-scope')
    # the byte-shift accumulation distinguishes shift > 0 only as an optimisation: both branches under one test
    sh = b.get('SH')
    if sh:
        t = [st for st in fn.stmts(ast.If) if sym.norm(st.test) == sym.norm('%s > 0' % sh[1])]
        fn.ob('FORMULA', 'shifted accumulation for significance > 0, plain accumulation for the lowest byte', len(t) == 1,
              t[0] if t else fn.ast, key='shift-branch')
    # lengths of bit widths and ranges must agree
    gs = [g for g, p in guards(fn, exc=['ValueError']) if not p and
          sym.norm(g.test) == sym.norm('param_ranges is not None and len(param_ranges) != %s' % (b.get('NP', ('var', 'num_params'))[1]))]
    fn.ob('GUARD', 'range list of another length than the width list is refused', len(gs) == 1, gs[0] if gs else fn.ast, key='len-ranges')
    return fn, b


# ---------------------------------------------------------------------------
# C16: size checks and memory maps

def size_checks(cx):
    fn = Fn(cx, DATA)
    maps = fn.calls('np.memmap')
    fn.ob('GUARD', 'event bytes are obtained through three memory maps (uniform integer, mixed integer, float)', len(maps) == 3,
          maps[0] if maps else fn.ast, detail='%d np.memmap calls' % len(maps), key='memmap-count')
    if len(maps) != 3:
        return fn
    buf = fn.params[0]
    checks = []
    for m in maps:
        shp = kwarg(m, 'shape')
        dt = kwarg(m, 'dtype')
        ok = m.args and dotted(m.args[0]) == buf and sym.norm(kwarg(m, 'offset')) == ('var', 'begin') \
            and sym.norm(kwarg(m, 'mode')) == ('const', 'r') and isinstance(shp, ast.Name) \
            and sym.norm(kwarg(m, 'order')) == ('const', 'C')
        fn.ob('GUARD', 'the file object itself is mapped read-only from the DATA begin offset in event-major order', bool(ok), m, key='memmap-args|%s' % (dotted(shp) or '?'))
        tries = [t for t in fn.ancestors(m) if isinstance(t, ast.Try) and t.handlers and fn.in_body_of(m, t, 'body')]
        fn.ob('GUARD', 'a failing memory map (file shorter than declared) is not caught: there is no second way to get the events', not tries,
              tries[0] if tries else m, detail='' if not tries else 'the map is inside a try whose handler continues with another read',
              key='memmap-no-try|%s' % (dotted(shp) or '?'))
        if not ok:
            continue
        S = shp.id
        # element size used in the check: 1 for uint8 maps, NB//8 otherwise
        if sym.norm(dt) == ('const', 'uint8'):
            prod = '%s[0] * %s[1]' % (S, S)
        else:
            nb = None
            dd = [v for d, v in fn.reaching_values(dt.id, m)] if isinstance(dt, ast.Name) else []
            if len(dd) == 1 and dd[0] is not None:
                from ..rules import expand_temps_ast
                for c in ast.walk(expand_temps_ast(fn, dd[0])):      # the width may sit in a temporary (`nbytes = num_bits // 8`)
                    if isinstance(c, ast.BinOp) and isinstance(c.op, ast.FloorDiv) and isinstance(c.left, ast.Name):
                        nb = c.left.id
            if nb is None:
                raise AnalysisError(DATA + ': cannot find the element width of `%s`' % norm_stmt(m))
            prod = '%s[0] * %s[1] * (%s // 8)' % (S, S, nb)
        want = sym.norm('(%s) != ((end + 1) - begin) and (%s) != (end - begin)' % (prod, prod))
        wants = [want]
        # the same product spelled with the two extents the shape was built from: shape = (rows, columns)
        sd = [v for d, v in fn.reaching_values(S, m)]
        if len(sd) == 1 and isinstance(sd[0], ast.Tuple) and len(sd[0].elts) == 2:
            p2 = prod.replace('%s[0]' % S, '(%s)' % ast.unparse(sd[0].elts[0])).replace('%s[1]' % S, '(%s)' % ast.unparse(sd[0].elts[1]))
            wants.append(sym.norm('(%s) != ((end + 1) - begin) and (%s) != (end - begin)' % (p2, p2)))
        gs = [(g, p) for g, p in guards(fn, exc=['ValueError']) if any(fn.eqv(g.test, w_) is not None for w_ in wants) and not p]
        dom = [g for g, p in gs if guard_dominates(fn, g, False, m)]
        ok = len(dom) == 1
        # shape variable not redefined between check and map
        if ok:
            ok = {d.id for d in fn.rd.reaching(fn.cfg.node_of(dom[0]), S)} == {d.id for d in fn.rd.reaching(fn.node(m), S)}
        checks.append(dom[0] if dom else None)
        fn.ob('GUARD', 'a memory map is dominated by the refusal of any DATA extent other than events x parameters x bytes (or that plus one)',
              ok, dom[0] if dom else m, detail='' if ok else 'no dominating check `%s` for `%s`' % (sym.show(want), norm_stmt(m))[:400],
              key='size-check|' + S + '|' + ('u8' if sym.norm(dt) == ('const', 'uint8') else 'typed'))
        # the mapped array is materialised (np.array / consumed) - not returned lazily with a closed file
    # sibling agreement of the three checks after renaming their size product
    nfs = [c for c in checks if c is not None]
    fn.ob('SIB', 'the three size checks are alike (each matched the same documented comparison)', len(nfs) == 3, fn.ast, key='size-sib')
    # no way out of the function with a result but through a size check and its map
    rets = [r for r in fn.walk(None, into_nested=False) if isinstance(r, ast.Return)]
    for i, r in enumerate(rets):
        passed = [fn.cfg.assume[id(g)][1] for g in nfs]
        ok = len(nfs) == 3 and not fn.cfg.reaches_avoiding(fn.cfg.entry, fn.node(r), passed) \
            and not fn.cfg.reaches_avoiding(fn.cfg.entry, fn.node(r), [fn.node(m) for m in maps])
        fn.ob('GUARD', 'events are returned only after a size check passed and the bytes were mapped', ok, r,
              detail='' if ok else '`%s` is reachable without passing a size check and a map' % norm_stmt(r), key='return-after-check|%d' % i)
    cx.need(len(rets) >= 1, DATA + ': no return statement')
    return fn


def required_keywords(cx):
    fn = Fn(cx, INIT)
    need = ['$PAR', '$TOT', '$MODE', '$DATATYPE', '$BYTEORD', '$NEXTDATA', '$BEGINSTEXT', '$ENDSTEXT', '$BEGINDATA',
            '$ENDDATA', '$BEGINANALYSIS', '$ENDANALYSIS']
    idx = {}
    gets = []
    for n in fn.walk(into_nested=True):
        k = text_key(n)
        if k:
            idx.setdefault(k, []).append(n)
        if isinstance(n, ast.Call) and isinstance(n.func, ast.Attribute) and n.func.attr in ('get', 'setdefault', 'pop') \
                and dotted(n.func.value) == 'self._text':
            gets.append(n)
    for k in need:
        fn.ob('REQKEY', 'layout keyword %s is read with a raising lookup' % k, k in idx, idx[k][0] if k in idx else fn.ast,
              detail='' if k in idx else 'no `self._text[%r]`' % k, key='req-' + k)
    fn.ob('REQKEY', 'no layout keyword is read with a defaulting lookup', not gets, gets[0] if gets else fn.ast,
          detail='' if not gets else norm_stmt(gets[0]), key='no-get')
    # numeric layout keywords converted with raising int()/float()
    for k in ('$PAR', '$TOT', '$NEXTDATA', '$BEGINSTEXT', '$ENDSTEXT', '$BEGINDATA', '$ENDDATA', '$BEGINANALYSIS', '$ENDANALYSIS'):
        for n in idx.get(k, []):
            par = fn.parent.get(id(n))
            ok = isinstance(par, ast.Call) and dotted(par.func) in ('int', 'float')
            if not ok and isinstance(par, ast.Call):   # used in a message .format(...)
                ok = isinstance(par.func, ast.Attribute) and par.func.attr == 'format'
            if not ok:
                # ... or in a %-formatted message: `'..%s..' % (value,)`
                p2 = fn.parent.get(id(par)) if isinstance(par, ast.Tuple) else par
                ok = isinstance(p2, ast.BinOp) and isinstance(p2.op, ast.Mod) and isinstance(p2.left, (ast.Constant, ast.BinOp)) and \
                    (p2.right is n or p2.right is par)
            fn.ob('REQKEY', 'numeric layout keyword %s is converted with a raising int()' % k, ok, n, key='conv-' + k)
    # per-parameter keywords
    fmt = [n for n in fn.walk(into_nested=True) if isinstance(n, ast.Subscript) and dotted(n.value) == 'self._text'
           and isinstance(n.slice, ast.Call)]
    keys = sorted({n.slice.func.value.value for n in fmt if isinstance(n.slice.func, ast.Attribute)
                   and isinstance(n.slice.func.value, ast.Constant)})
    ok = ('$P{0}B' in keys or '$P{}B' in keys) and ('$P{0}R' in keys or '$P{}R' in keys)     # (`{0}` is `{}` in canonical form)
    fn.ob('REQKEY', '$PnB and $PnR are read with raising lookups', ok, fmt[0] if fmt else fn.ast, detail=str(keys), key='req-PnB-PnR')
    return fn


def short_reads(cx):
    fn = Fn(cx, TEXT)
    buf = fn.params[0]
    reads = [c for c in fn.calls() if isinstance(c.func, ast.Attribute) and c.func.attr == 'read' and dotted(c.func.value) == buf]
    seg = [r for r in reads if sym.norm(r.args[0]) == sym.norm('(end + 1) - begin')]
    fn.ob('SHORTREAD', 'the segment is read with its full declared length (end+1-begin) from its begin offset', len(seg) == 1,
          seg[0] if seg else fn.ast, key='segment-read')
    if len(seg) != 1:
        return fn
    st = fn.cfg.stmt_of(seg[0])
    cx.need(isinstance(st, ast.Assign) and isinstance(st.targets[0], ast.Name), TEXT + ': segment read is not assigned to a name')
    raw = st.targets[0].id
    sk = [c for c in fn.calls() if isinstance(c.func, ast.Attribute) and c.func.attr == 'seek' and c.lineno < st.lineno]
    ok = bool(sk) and sym.norm(sk[-1]) == sym.norm('%s.seek(begin)' % buf)
    fn.ob('SHORTREAD', 'the read is positioned at the begin offset', ok, sk[-1] if sk else st, key='segment-seek')
    want = [sym.norm('len(%s) < end - begin' % raw), sym.norm('len(%s) < (end + 1) - begin - 1' % raw),
            sym.norm('len(%s) + 1 < (end + 1) - begin' % raw)]
    gs = [(g, p) for g, p in guards(fn, exc=['ValueError']) if sym.norm(g.test) in want and not p]
    ok = len(gs) == 1
    fn.ob('SHORTREAD', 'a segment shorter than declared (beyond the one-byte end convention) is refused', ok,
          gs[0][0] if gs else st, detail='' if ok else 'no `if len(%s) < end - begin: raise ValueError`' % raw, key='length-check')
    if ok:
        g = gs[0][0]
        # every other use of the bytes read is dominated by the check (including the emptiness test)
        uses = [n for n in fn.walk() if isinstance(n, ast.Name) and n.id == raw and isinstance(n.ctx, ast.Load)
                and not any(a is g for a in fn.ancestors(n)) and fn.cfg.stmt_of(n) is not st]
        bad = [u for u in uses if not guard_dominates(fn, g, False, u)]
        fn.ob('SHORTREAD', 'nothing looks at the bytes read before their length has been checked', not bad,
              bad[0] if bad else g, detail='' if not bad else 'use at line %d is not dominated by the length check' % bad[0].lineno,
              key='length-check-first')
        # raw not redefined between read and check
        ok2 = {d.id for d in fn.rd.reaching(fn.cfg.node_of(g), raw)} == {fn.node(st).id}
        fn.ob('SHORTREAD', 'the length checked is that of the bytes just read', ok2, g, key='length-check-same')
    return fn


# ---------------------------------------------------------------------------
# C14: supplemental segments and the tokenizer

def supplemental_callargs(cx):
    fn = Fn(cx, INIT)
    calls = fn.calls('read_fcs_text_segment')
    prim = [c for c in calls if sym.norm(kwarg(c, 'supplemental')) == ('const', False)]
    sup = [c for c in calls if sym.norm(kwarg(c, 'supplemental')) == ('const', True)]
    ok = len(prim) == 1 and len(sup) == 3
    fn.ob('CALLARGS', 'one primary and three supplemental-style reads (supplemental TEXT, ANALYSIS by HEADER, ANALYSIS by TEXT)', ok,
          calls[0] if calls else fn.ast, detail='%d primary, %d supplemental' % (len(prim), len(sup)), key='sites')
    if not ok:
        return fn
    p = prim[0]
    ok = sym.norm(kwarg(p, 'begin')) == sym.norm('self._header.text_begin') and sym.norm(kwarg(p, 'end')) == sym.norm('self._header.text_end') \
        and kwarg(p, 'delim') is None
    fn.ob('CALLARGS', 'the primary TEXT is read at the HEADER offsets, taking its delimiter from its first byte', ok, p, key='primary')
    pst = fn.cfg.stmt_of(p)
    cx.need(isinstance(pst, ast.Assign) and isinstance(pst.targets[0], ast.Tuple) and len(pst.targets[0].elts) == 2,
            INIT + ': primary read is not unpacked into (text, delimiter)')
    tvar, dvar = pst.targets[0].elts
    ok = sym.norm(tvar) == sym.norm('self._text') and isinstance(dvar, ast.Name)
    fn.ob('CALLARGS', 'the primary dictionary is what the file object exposes as text', ok, pst, key='primary-store')
    d = dvar.id if isinstance(dvar, ast.Name) else '?'
    for c in sup:
        ok = sym.norm(kwarg(c, 'delim')) == ('var', d) and \
            {x.id for x in fn.rd.reaching(fn.node(c), d)} == {fn.node(pst).id}
        fn.ob('CALLARGS', 'a supplemental/ANALYSIS segment is split with the primary segment\'s delimiter', ok, c, key='delim|%d' % sup.index(c))
        par = fn.parent.get(id(c))
        ok = isinstance(par, ast.Subscript) and sym.norm(par.slice) == ('num', 0)
        if not ok and isinstance(par, ast.Assign) and par.value is c and len(par.targets) == 1 and isinstance(par.targets[0], ast.Tuple) \
                and len(par.targets[0].elts) == 2 and isinstance(par.targets[0].elts[1], ast.Name):
            # unpacked, the second part bound to a name nothing reads
            junk = par.targets[0].elts[1].id
            ok = not any(isinstance(n, ast.Name) and n.id == junk and isinstance(n.ctx, ast.Load) for n in fn.walk(None, into_nested=True))
        fn.ob('CALLARGS', 'only the dictionary of a supplemental-style read is used', ok, c, key='dict-only|%d' % sup.index(c))
    # supplemental TEXT: offsets from $BEGINSTEXT/$ENDSTEXT, merged into the primary dictionary
    st = [c for c in sup if 'stext' in ast.unparse(kwarg(c, 'begin'))]
    ok = len(st) == 1
    if ok:
        c = st[0]
        ok = fn.nf(kwarg(c, 'begin'), at=c) == sym.norm("int(self._text['$BEGINSTEXT'])") and \
            fn.nf(kwarg(c, 'end'), at=c) == sym.norm("int(self._text['$ENDSTEXT'])")
        g = [a for a in fn.ancestors(c) if isinstance(a, ast.If)]
        b, e = dotted(kwarg(c, 'begin')), dotted(kwarg(c, 'end'))
        okg = len(g) >= 2 and sym.norm(g[0].test) == sym.norm('%s and %s' % (b, e)) and \
            sym.norm(g[1].test) == sym.norm("self._header.version in ('FCS3.0', 'FCS3.1')")
        fn.ob('CALLARGS', 'for FCS 3.x a supplemental TEXT is read whenever both of its offsets are non-zero, wherever it lies', okg,
              g[0] if g else c, detail='' if okg else 'condition is `%s`' % (norm_stmt(g[0].test) if g else '?'), key='stext-condition')
        sv = fn.cfg.stmt_of(c)
        up = [u for u in fn.calls() if isinstance(u.func, ast.Attribute) and u.func.attr == 'update' and dotted(u.func.value) == 'self._text']
        okm = isinstance(sv, ast.Assign) and len(up) == 1 and sym.norm(up[0].args[0]) == sym.norm(_dict_target(sv, c)) \
            and fn.in_body_of(fn.cfg.stmt_of(up[0]), g[0], 'body') if g else False
        fn.ob('CALLARGS', 'supplemental keywords are merged into the primary dictionary', bool(okm), up[0] if up else c, key='merge')
        # merge precedes every layout lookup
        first = min([n.lineno for n in fn.walk() if isinstance(n, ast.Subscript) and dotted(n.value) == 'self._text'
                     and isinstance(n.slice, ast.Constant) and n.slice.value in ('$MODE', '$DATATYPE', '$PAR')] or [0])
        okf = bool(up) and up[0].lineno < first
        fn.ob('CALLARGS', 'the merge happens before any layout keyword is consulted', okf, up[0] if up else c, key='merge-first')
    fn.ob('CALLARGS', 'supplemental TEXT offsets come from $BEGINSTEXT/$ENDSTEXT', ok, st[0] if st else fn.ast, key='stext-offsets')
    # ANALYSIS: HEADER offsets with priority, else TEXT offsets for 3.x, failures tolerated with a warning and an empty dict
    an = [c for c in sup if c not in st]
    for c in an:
        t = [a for a in fn.ancestors(c) if isinstance(a, ast.Try)]
        ok = bool(t) and len(t[0].handlers) == 1
        if ok:
            h = t[0].handlers[0]
            ok = any(isinstance(s, ast.Assign) and sym.norm(s.targets[0]) == sym.norm('self._analysis') and sym.norm(s.value) == ('dict',)
                     for s in h.body) and any('warn' in ast.unparse(s) for s in h.body)
        fn.ob('CALLARGS', 'an unparsable ANALYSIS segment yields a warning and an empty dictionary, not other keywords', ok, c,
              key='analysis-tolerant|%d' % an.index(c))
        sv = fn.cfg.stmt_of(c)
        ok = isinstance(sv, ast.Assign) and sym.norm(_dict_target(sv, c, fn)) == sym.norm('self._analysis')
        fn.ob('CALLARGS', 'ANALYSIS keywords are kept apart from TEXT keywords', ok, c, key='analysis-store|%d' % an.index(c))
    return fn


def _dict_target(sv, call, fn=None):
    """where the dictionary of `... = read_fcs_text_segment(...)[0]` or `d, unused = read_fcs_text_segment(...)` is stored"""
    t = sv.targets[0]
    if sv.value is call and isinstance(t, ast.Tuple) and len(t.elts) == 2:
        t = t.elts[0]
    if isinstance(t, ast.Name) and fn is not None:
        # ... or through a temporary that is stored next: `d, unused = read(...)` / `self._analysis = d`
        uses = [s_ for s_ in fn.stmts(ast.Assign) if isinstance(s_.value, ast.Name) and s_.value.id == t.id and len(s_.targets) == 1
                and isinstance(s_.targets[0], ast.Attribute)]
        if len(uses) >= 1 and len({ast.dump(u.targets[0]) for u in uses}) == 1:
            return uses[0].targets[0]
    return t


TOKEN_ITEMS = [
    ('the delimiter byte is looked at from the begin offset', 'BUF.seek(begin)'),
    ('delimiter defaults to the first byte of a primary segment', 'DELIM = BUF.read(1).decode(encoding)'),
    ('the segment is read from its begin offset, whatever was read before', 'BUF.seek(begin)'),
    ('the whole declared extent is asked for', 'RAW = BUF.read(end + 1 - begin).decode(encoding)'),
    ('an empty segment yields no keywords and no delimiter', 'return ({}, None)'),
    ('a primary segment must start with the delimiter', 'if RAW[0] != DELIM:'),
    ('everything after the last delimiter is dropped', 'END = RAW.rfind(DELIM)'),
    ('a supplemental segment without any delimiter is empty', 'if supplemental and END == -1:'),
    ('... and yields no keywords', 'return ({}, DELIM)'),
    ('the segment is cut at the last delimiter', 'RAW = RAW[:END]'),
    ('the segment is split on the delimiter', 'PL = RAW.split(DELIM)'),
    ('scan starts at the last token', 'IDX = len(PL) - 1'),
    ('scan runs to the first token', 'while IDX >= 0:'),
    ('one step to the left: after the first empty token of a run', 'IDX = IDX - 1'),
    ('one step to the left: inside a run', 'IDX = IDX - 1'),
    ('one step to the left: after a completed token (boundary case)', 'IDX = IDX - 1'),
    ('one step to the left: after a glued token', 'IDX = IDX - 1'),
    ('one step to the left: after a plain token', 'IDX = IDX - 1'),
    ('an empty token starts a run of delimiters', "if PL[IDX] == '':"),
    ('run length starts at one', 'NE = 1'),
    ('the run is extended over consecutive empty tokens', "while IDX >= 0 and PL[IDX] == '':"),
    ('run length counts every empty token', 'NE = NE + 1'),
    ('rolling off the front is distinguished from meeting a token', 'if IDX < 0:'),
    ('a single leading empty token is the opening delimiter', 'if NE == 1:'),
    ('an even leading run is ill-formed', 'if NE % 2 == 0:'),
    ('escaped delimiters in a run: ceil(run/2)', 'ND = (NE + 1) // 2'),
    ('a boundary delimiter exists iff the run is even', 'BD = NE % 2 == 0'),
    ('boundary case: escaped delimiters are appended to the token on the left', 'PL[IDX] = PL[IDX] + ND * DELIM'),
    ('boundary case: that token is complete', 'ACC.append(PL[IDX])'),
    ('a plain token is complete as it is', 'ACC.append(PL[IDX])'),
    ('a token glued at the front of the list is complete', 'ACC.append(PL[IDX])'),
    ('no boundary: the token on the left, the escaped delimiters and the already rebuilt token on the right are glued',
     'ACC[-1] = PL[IDX] + ND * DELIM + ACC[-1]'),
    ('tolerated ending (two delimiters): detected by an empty accumulator', 'if len(ACC) == 0:'),
    ('tokens were collected back to front', 'PLR = list(reversed(ACC))'),
    ('an odd number of tokens is refused', 'if len(PLR) % 2 != 0:'),
    ('keywords are the even tokens, values the odd ones', 'TEXT = dict(zip(PLR[0::2], PLR[1::2]))'),
    ('the dictionary and the delimiter are returned', 'return (TEXT, DELIM)'),
]
TOKEN_METAS = ['DELIM', 'BUF', 'RAW', 'END', 'PL', 'IDX', 'NE', 'ND', 'BD', 'ACC', 'PLR', 'TEXT']


def tokenizer(cx):
    fn = Fn(cx, TEXT)
    b = inventory(fn, 'TOKENS', TOKEN_ITEMS, TOKEN_METAS, fixed={'BUF': fn.params[0], 'DELIM': 'delim'}, ordered_add=True)
    # EXITS: three returns, every other exit a ValueError, exactly one tolerated warning, no handler
    rets = fn.stmts(ast.Return)
    fn.ob('EXITS', 'the tokenizer has exactly the three documented returns', len(rets) == 3, rets[0] if rets else fn.ast,
          detail='%d returns' % len(rets), key='returns')
    raises = fn.stmts(ast.Raise)
    types = sorted(raised_types(raises))
    ok = types == ['ValueError'] and len(raises) >= 6       # (7 in the source; two with one message are one in canonical form)
    fn.ob('EXITS', 'every failure exit raises ValueError (>= 6 sites)', ok, raises[0] if raises else fn.ast,
          detail='%d raise sites of %s' % (len(raises), types), key='raises')
    tr = fn.stmts(ast.Try)
    fn.ob('EXITS', 'no handler inside the tokenizer swallows an error', not tr, tr[0] if tr else fn.ast, key='no-try')
    w = [c for c in fn.calls('warnings.warn')]
    fn.ob('EXITS', 'exactly one ill-formed ending is tolerated with a warning', len(w) == 1, w[0] if w else fn.ast, key='warn')
    # the odd-count refusal dominates the pairing
    plr = b.get('PLR')
    if plr:
        gs = [(g, p) for g, p in guards(fn, exc=['ValueError']) if sym.norm(g.test) == sym.norm('len(%s) %% 2 != 0' % plr[1])]
        z = [c for c in fn.calls('zip')]
        ok = len(gs) == 1 and len(z) == 1 and guard_dominates(fn, gs[0][0], gs[0][1], z[0])
        fn.ob('EXITS', 'the odd-count refusal dominates the pairing of keywords with values', ok, gs[0][0] if gs else fn.ast, key='odd-first')
    # rolled-off branches: odd leading run raises too
    ne = b.get('NE')
    if ne:
        one0 = [st for st in fn.stmts(ast.If) if sym.norm(st.test) == sym.norm('%s == 1' % ne[1])]
        ok = len(one0) == 1
        if ok:
            # whatever is not the opening delimiter ends in a refusal: everything behind `if n == 1: break` (as an else chain or
            # as the statements that follow it) always raises
            blk, i = block_of(fn, one0[0])
            rest = one0[0].orelse if one0[0].orelse else blk[i + 1:]
            ok = always_raises(rest) and len(one0[0].body) == 1 and isinstance(one0[0].body[0], ast.Break)
        fn.ob('EXITS', 'a keyword starting with the delimiter is refused for even and odd runs alike', ok, one0[0] if one0 else fn.ast,
              key='leading-run')
        one = [st for st in fn.stmts(ast.If) if sym.norm(st.test) == sym.norm('%s == 1' % ne[1])]
        ok = len(one) == 1 and len(one[0].body) == 1 and isinstance(one[0].body[0], ast.Break)
        fn.ob('EXITS', 'the opening delimiter of a segment ends the scan', ok, one[0] if one else fn.ast, key='opening')
    # non-empty tokens are appended as they are
    idx, pl, acc = b.get('IDX'), b.get('PL'), b.get('ACC')
    if idx and pl and acc:
        plain = [st for st in fn.stmts(ast.Expr) if sym.norm(st.value) == sym.norm('%s.append(%s[%s])' % (acc[1], pl[1], idx[1]))]
        fn.ob('TOKENS', 'tokens are appended in three places (plain token, boundary case, tolerated ending)', len(plain) == 3,
              plain[0] if plain else fn.ast, detail='%d appends' % len(plain), key='appends')
        dec = [st for st in fn.stmts(ast.Assign) if sym.norm(st.targets[0]) == idx and sym.norm(st.value) == sym.norm('%s - 1' % idx[1])]
        # the same step spelled `idx -= 1` (the index is a plain integer)
        dec += [st for st in fn.stmts(ast.AugAssign) if sym.norm(st.target) == idx and (
            (isinstance(st.op, ast.Sub) and sym.norm(st.value) == ('num', 1)) or (isinstance(st.op, ast.Add) and sym.norm(st.value) == ('num', -1)))]
        fn.ob('TOKENS', 'the scan index only ever moves one token to the left', len(dec) >= 4, dec[0] if dec else fn.ast,
              detail='%d decrements' % len(dec), key='decrements')
        others = [st for st in fn.stmts((ast.Assign, ast.AugAssign)) if sym.norm(st.targets[0] if isinstance(st, ast.Assign) else st.target) == idx
                  and st not in dec and sym.norm(getattr(st, 'value')) != sym.norm('len(%s) - 1' % pl[1])]
        fn.ob('TOKENS', 'no other update of the scan index', not others, others[0] if others else fn.ast, key='index-updates')
    # delimiter: given or first byte; supplemental without delimiter refused
    gs = [g for g, p in guards(fn, exc=['ValueError']) if sym.norm(g.test) == ('var', 'supplemental')
          and any(isinstance(a, ast.If) and is_none_test(a.test, 'delim') for a in fn.ancestors(g))]
    ok = len(gs) == 1
    fn.ob('EXITS', 'a supplemental segment without a delimiter argument is refused', ok, gs[0] if gs else fn.ast, key='supp-delim')
    return fn, b


def propagation(cx):
    """PROPAGATE: an error met while reading HEADER, primary TEXT, supplemental TEXT or DATA leaves
    FCSFile.__init__ (and FCSData.__new__) as an exception: none of these reads sits in a try body with
    a handler.  Only the ANALYSIS reads are documented as tolerant (warning, empty dictionary)."""
    fn = Fn(cx, INIT)
    n = 0
    for c in fn.calls(('read_fcs_header_segment', 'read_fcs_text_segment', 'read_fcs_data_segment')):
        name = fn.callee(c).split('.')[-1]
        begin = kwarg(c, 'begin')
        analysis = name == 'read_fcs_text_segment' and begin is not None and 'analysis' in ast.unparse(begin).lower()
        tries = [t for t in fn.ancestors(c) if isinstance(t, ast.Try) and t.handlers and fn.in_body_of(c, t, 'body')]
        n += 1
        if analysis:
            ok = len(tries) == 1
            fn.ob('PROPAGATE', 'an unreadable ANALYSIS segment is tolerated (warning), as documented', ok, c, key='analysis|%d' % n)
        else:
            fn.ob('PROPAGATE', 'an error of a %s read is not caught: the load fails' % name.replace('read_fcs_', '').replace('_', ' '),
                  not tries, tries[0] if tries else c,
                  detail='' if not tries else 'the read is inside a try whose handler catches %s and continues' % sorted(
                      set().union(*[handler_types(h) if h.type is not None else {'everything'} for h in tries[0].handlers])),
                  key='%s|%s' % (name, sym.show(sym.norm(begin)) if begin is not None else ''))
    cx.floor('PROPAGATE', n, 6, 'segment reads in FCSFile.__init__')
    fn2 = Fn(cx, 'io.FCSData.__new__')
    for c in fn2.calls('FCSFile'):
        tries = [t for t in fn2.ancestors(c) if isinstance(t, ast.Try) and t.handlers and fn2.in_body_of(c, t, 'body')]
        fn2.ob('PROPAGATE', 'an error of the file reader is not caught by the sample constructor', not tries, c, key='ctor')
    return fn


ALLOCATORS = ('np.array', 'np.zeros', 'np.empty', 'np.ones', 'np.full', 'np.copy')


def owned_events(cx):
    """OWNED: the event matrix handed out by the reader is held in memory of its own: whatever reaches a
    `return` of read_fcs_data_segment was produced by an allocating constructor (np.array of the map -
    a copy -, np.zeros filled by stores), never the memory map itself or a view of it; every map is
    read-only.  A load then cannot change when the file changes later, and two loads are independent."""
    fn = Fn(cx, DATA)
    rets = [r for r in fn.walk(None, into_nested=False) if isinstance(r, ast.Return)]
    cx.need(rets, DATA + ': no return statement')
    n = 0
    for r in rets:
        if not isinstance(r.value, ast.Name):
            fn.ob('OWNED', 'the returned events are a named array built by an allocating constructor', False, r, key='ret-shape')
            continue
        for d, v in fn.reaching_values(r.value.id, r):
            n += 1
            ok = isinstance(v, ast.Call) and fn.callee(v) in ALLOCATORS and \
                not any(k.arg == 'copy' for k in v.keywords) and not any(k.arg == 'subok' for k in v.keywords)
            fn.ob('OWNED', 'the returned events were produced by an allocating constructor (a copy of the map, or a new array filled from it)', ok,
                  d.ast if hasattr(d, 'ast') and d.ast is not None else r,
                  detail='' if ok else 'the returned array may be `%s`: file-backed or shared' % (norm_stmt(v) if v is not None else 'not a plain assignment'),
                  key='alloc|%d' % n)
    for m in fn.calls('np.memmap'):
        ok = sym.norm(kwarg(m, 'mode')) == ('const', 'r')
        fn.ob('OWNED', 'the file is mapped read-only', ok, m, key='mode|%s' % sym.show(sym.norm(kwarg(m, 'dtype'))))
    cx.floor('OWNED', n, 3, 'definitions of the returned event matrix')
    return fn


SAMPLE_ITEMS = [
    ('the file is parsed anew for every sample', 'F = FCSFile(infile)'),
    ('the decoded events are made writeable in place', 'F.data.flags.writeable = True'),
    ('the sample is a view of the decoded events themselves (no conversion, no other array)', 'OBJ = F.data.view(cls)'),
]


def sample_events(cx, rule='FORMULA'):
    """FCSData.__new__ hands out the decoder's own array: parsed from the named file in this call, viewed as the sample
    class, nothing in between (a cast, a cache, another array would be a new definition of one of the roles)."""
    fn = Fn(cx, 'io.FCSData.__new__')
    b = inventory(fn, rule, SAMPLE_ITEMS, {'F': 'F', 'OBJ': 'OBJ'})
    obj = b.get('OBJ')
    if obj and obj[0] == 'var':
        # private metadata attributes stored on the sample (decided by ATTRSET / the C17 inventories) cannot touch its
        # events; `obj.dtype = ..`, `obj.shape = ..`, item stores and re-bindings can, and stay undocumented here
        for st in fn.stmts(ast.Assign):
            t = st.targets[0]
            if len(st.targets) == 1 and isinstance(t, ast.Attribute) and isinstance(t.value, ast.Name) and t.value.id == obj[1] \
                    and t.attr.startswith('_') and not t.attr.startswith('__'):
                cx.documented.add(id(st))
    return fn
