"""C15 - a well-formed workbook always yields a complete, faithful output workbook."""
import ast

from . import excel_rules as E
from .. import extapi
from ..rules import Fn


def run(cx):
    E.run_sequence(cx)
    E.read_write(cx)
    E.column_agreement(cx)
    E.stats_table(cx)
    E.histograms_table(cx)
    E.about_and_cli(cx)
    E.units_dispatch(cx)
    E.fault_table(cx)
    E.beads_stats_table(cx)
    # reading a workbook again returns what is in the file now: no function keeps module-level state
    from . import mef_rules
    mef_rules.no_module_state(cx, ('io', 'transform', 'gate', 'stats', 'mef', 'plot', 'excel_ui'))
    from . import figure_rules
    figure_rules.run_all(cx)
    # arguments shared by all rows are not rebound in the row loops (figure paths are built from them per row)
    E.loop_independence(cx, E.BEADS)
    E.loop_independence(cx, E.SAMPLES)
    for q in (E.BEADS, E.SAMPLES):
        fn = Fn(cx, q)
        for p in ('base_dir', 'plot_dir', 'plot'):
            reb = [n for n in fn.cfg.nodes if n.kind != 'entry' and p in fn.rd.gen[n.id]]
            fn.ob('SEQ', 'argument %s is used as given for every figure and file path' % p, not reb, reb[0].ast if reb else fn.ast,
                  detail='' if not reb else 'rebound: the per-row paths are built from it again', key='param-' + p)
    # API over everything reachable from run(): all modules of the package
    total = 0
    for m in ('excel_ui', 'io', 'transform', 'gate', 'stats', 'mef', 'plot'):
        mod = cx.repo.mod(m)
        qmap = {}
        for q, f in mod.funcs.items():
            for x in ast.walk(f):
                qmap.setdefault(id(x), m + '.' + q)
        total += extapi.api_obligations(cx, mod, mod.tree, lambda nd, m=m, qmap=qmap: qmap.get(id(nd), m), min_found=5)
    cx.floor('API', total, 500, 'third-party names over the package')
    cx.decided += [
        'run(): sheets are read, processed and written in the documented order; Instruments, Beads, Samples, About Analysis always, Histograms iff requested; the beads table extended by the beads statistics is what the samples processing reads (column names agree)',
        'read_table: list/None sheet refused, identifier-less rows dropped before duplicates are refused; write_workbook: each table under its own name with identifiers restored as columns, writer closed unconditionally',
        'result columns: the statistics and histogram tables are built by the documented statements (bins capped at max_bins, columns sized alike)',
        'figures: every plotting function with a savefig argument ends with the layout/save/close block run exactly when a name is given; the calibration and the table processors call the documented plotting function with the documented file name under the documented conditions; plot directories are created first',
        'arguments shared by all rows (base_dir, plot_dir, plot) are not rebound; nothing leaks between rows',
        'every third-party name used anywhere in the package resolves in the installed libraries and every inspectable call fits the installed signature (pruned by version guards, tolerated inside try/except AttributeError)',
    ]
    cx.not_decided += ['termination without exception for every well-formed workbook and existence of every figure file (liveness over pandas/matplotlib behaviour)',
                       'cell-level equality of the write/read round trip (pandas/openpyxl)']
