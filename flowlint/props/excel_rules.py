"""Rules over FlowCal/excel_ui.py (C10, C11, C15)."""
import ast

from ..core import AnalysisError, norm_stmt
from ..rules import (subscript_stores, Fn, guards, guard_dominates, names_in, strings_in, kwarg, is_none_test, inventory,
                     enclosing_tries, handler_catches, handler_types, always_raises, raised_types,
                     assigned_names, exc_class, loop_nodes)
from ..cfg import CFG, ReachingDefs, target_names, root_name
from .. import sym
from ..sym import dotted

BEADS = 'excel_ui.process_beads_table'
SAMPLES = 'excel_ui.process_samples_table'
ROWEXC = 'ExcelUIException'


def row_loop(cx, fn):
    loops = [f for f in fn.stmts(ast.For) if isinstance(f.iter, ast.Call) and isinstance(f.iter.func, ast.Attribute)
             and f.iter.func.attr == 'iterrows' and fn.parent.get(id(f)) is fn.ast]
    cx.need(len(loops) == 1, '%s: expected one top-level loop over table rows' % fn.qual)
    lp = loops[0]
    cx.need(isinstance(lp.target, ast.Tuple) and len(lp.target.elts) == 2 and all(isinstance(t, ast.Name) for t in lp.target.elts),
            '%s: row loop target is not (id, row)' % fn.qual)
    cx.need(len(lp.body) == 1 and isinstance(lp.body[0], ast.Try), '%s: the row loop body is not a single try statement' % fn.qual)
    return lp, lp.target.elts[0].id, lp.target.elts[1].id, lp.body[0]


def result_dicts_of(cx, fn, lp):
    """(result dictionaries in return order, those filled only under a flag): names returned by the
    function that are created empty before the row loop."""
    order, per_ret = [], []
    for r in fn.stmts(ast.Return):
        if any(a is lp for a in fn.ancestors(r)):
            continue
        els = r.value.elts if isinstance(r.value, ast.Tuple) else [r.value]
        names = [e.id for e in els if isinstance(e, ast.Name)]
        per_ret.append(names)
        for n in names:
            if n not in order:
                order.append(n)
    dicts = []
    for n in order:
        defs = [s for s in fn.stmts(ast.Assign) if isinstance(s.targets[0], ast.Name) and s.targets[0].id == n and s.lineno < lp.lineno]
        if defs and sym.norm(defs[0].value) in (sym.norm('collections.OrderedDict()'), sym.norm('dict()'), sym.norm('{}')):
            dicts.append(n)
    cx.need(dicts, '%s: no result dictionary is returned' % fn.qual)
    flagged = [d for d in dicts if not all(d in names for names in per_ret)]
    return dicts, flagged


# ---------------------------------------------------------------------------
# C11

def exc_discipline(cx, qual, result_dicts=None, flag_dicts=()):
    """(a) one outer handler for the row exception that records and continues; exactly one result per
    row on every normal path; (b) converting handlers do not fault."""
    fn = Fn(cx, qual)
    lp, rid, row, tr = row_loop(cx, fn)
    result_dicts, flag_dicts = result_dicts_of(cx, fn, lp)
    hs = tr.handlers
    ok = len(hs) == 1 and handler_types(hs[0]) == [ROWEXC] and hs[0].name is not None and not tr.finalbody
    fn.ob('EXC', 'the per-row try has exactly one handler, for the row-level error type, binding the error', ok, tr,
          detail='' if ok else 'handlers: %s' % [handler_types(h) for h in hs], key='outer-handler')
    if not ok:
        return fn
    h = hs[0]
    bad = [x for s in h.body for x in ast.walk(s) if isinstance(x, (ast.Raise, ast.Break, ast.Return, ast.Continue))]
    fn.ob('EXC', 'the row handler neither re-raises nor leaves the loop', not bad, bad[0] if bad else h, key='handler-continues')
    # exactly one store per result dictionary per row: one in the handler, one in the else block
    for d in result_dicts:
        def stores_in(stmts):
            out = []
            for s in stmts:
                for x in ast.walk(s):
                    if isinstance(x, ast.Assign) and isinstance(x.targets[0], ast.Subscript) and dotted(x.targets[0].value) == d:
                        out.append(x)
            return out
        hs_, es_, bs_ = stores_in(h.body), stores_in(tr.orelse), stores_in(tr.body)
        flagged = d in flag_dicts

        def direct(x, blk):
            par = fn.parent.get(id(x))
            if flagged:
                return isinstance(par, ast.If) and isinstance(par.test, ast.Name) and any(par is y for y in blk) and not par.orelse
            return any(x is y for y in blk)
        ok = len(hs_) == 1 and len(es_) == 1 and not bs_ and direct(hs_[0], h.body) and direct(es_[0], tr.orelse) \
            and sym.norm(hs_[0].targets[0].slice) == ('var', rid) and sym.norm(es_[0].targets[0].slice) == ('var', rid)
        fn.ob('ONCE', 'every row gets exactly one entry in %s under its own identifier, on the error path and on the normal path' % d,
              ok, (hs_ + es_ + [tr])[0], detail='' if ok else 'stores: handler %d, else %d, try body %d' % (len(hs_), len(es_), len(bs_)),
              key='once-' + d)
        if d == result_dicts[0] and len(hs_) == 1:
            okv = sym.norm(hs_[0].value) == ('var', h.name)
            fn.ob('EXC', 'the error recorded for the row is the caught error itself', okv, hs_[0], key='records-error')
    # all stores into result dictionaries anywhere else
    for st in fn.stmts(ast.Assign):
        t = st.targets[0]
        if isinstance(t, ast.Subscript) and dotted(t.value) in result_dicts:
            inside = any(a is lp for a in fn.ancestors(st))
            fn.ob('ONCE', 'result dictionaries are written only by the row loop', inside, st, key='store-outside|' + dotted(t.value)) \
                if not inside else None
    # result dictionaries are ordered, created empty before the loop, returned
    for d in result_dicts:
        defs = [s for s in fn.stmts(ast.Assign) if isinstance(s.targets[0], ast.Name) and s.targets[0].id == d]
        ok = len(defs) == 1 and sym.norm(defs[0].value) in (sym.norm('collections.OrderedDict()'), sym.norm('dict()'), sym.norm('{}')) \
            and defs[0].lineno < lp.lineno
        fn.ob('ONCE', 'result dictionary %s starts empty and keeps table order' % d, ok, defs[0] if defs else fn.ast, key='dict-init-' + d)
    # empty table -> empty result, before anything else happens
    tbl = fn.params[0]
    e = [s for s in fn.stmts(ast.If) if sym.norm(s.test) == sym.norm('%s.empty' % tbl)]
    ok = len(e) == 1 and all(isinstance(r.value, (ast.Name, ast.Tuple)) for r in ast.walk(e[0]) if isinstance(r, ast.Return)) \
        and fn.cfg.dominates(fn.cfg.node_of(e[0]), fn.node(lp))
    fn.ob('ONCE', 'an empty table returns the empty containers', ok, e[0] if e else fn.ast, key='empty-table')
    # (b) converting handlers: attributes read from the caught exception exist on its class
    n = 0
    for t in fn.stmts(ast.Try, tr):
        for hh in t.handlers:
            if not any(isinstance(x, ast.Raise) for s in hh.body for x in ast.walk(s)):
                continue
            n += 1
            conv = [x for s in hh.body for x in ast.walk(s) if isinstance(x, ast.Raise)]
            okc = all(isinstance(x.exc, ast.Call) and dotted(x.exc.func) == ROWEXC for x in conv)
            fn.ob('EXC', 'an inner handler converts %s into the row-level error' % '/'.join(handler_types(hh)), okc, hh, key='converts|%s|%d' % ('/'.join(handler_types(hh)), n))
            if hh.name:
                for x in ast.walk(ast.Module(body=hh.body, type_ignores=[])):
                    if isinstance(x, ast.Attribute) and isinstance(x.value, ast.Name) and x.value.id == hh.name:
                        cls = [exc_class(tn) for tn in handler_types(hh)]
                        oka = all(c is not None and hasattr(c('x'), x.attr) for c in cls)
                        fn.ob('EXC', 'a converting handler only reads attributes its exception has (it must not fault itself)', oka, x,
                              detail='' if oka else '%s has no attribute %r in Python 3: the handler raises AttributeError, which the row handler does not catch'
                              % ('/'.join(handler_types(hh)), x.attr), key='handler-attr|%s.%s' % (hh.name, x.attr))
    cx.count('converting_handlers', n)
    return fn


def loop_independence(cx, qual, result_dicts=None):
    """No state is carried from one row to the next: (i) every name assigned in the row body is
    definitely assigned in this iteration before it is read; (ii) nothing created before the loop is
    modified in the loop except the result dictionaries."""
    fn = Fn(cx, qual)
    lp, rid, row, tr = row_loop(cx, fn)
    result_dicts, _ = result_dicts_of(cx, fn, lp)
    body_assigned = assigned_names(lp.body)
    for hnd in tr.handlers:
        if hnd.name:
            body_assigned.add(hnd.name)
    # synthetic function: one iteration
    params = [ast.arg(arg=rid), ast.arg(arg=row)]
    f = ast.FunctionDef(name='_iteration', args=ast.arguments(posonlyargs=[], args=params, kwonlyargs=[], kw_defaults=[], defaults=[]),
                        body=lp.body, decorator_list=[], lineno=lp.lineno, col_offset=0)
    cfg = CFG(f)
    rd = ReachingDefs(cfg)
    n = 0
    seen = set()
    for node in cfg.nodes:
        if node.ast is None or node.kind in ('entry', 'exit', 'raise', 'join', 'assume', 'try'):
            continue
        roots = [node.ast.test] if node.kind == 'test' else ([node.ast.iter] if node.kind == 'for' else
                                                              ([i.context_expr for i in node.ast.items] if node.kind == 'with' else
                                                               ([] if node.kind == 'handler' else [node.ast])))
        for root in roots:
            for x in ast.walk(root):
                if isinstance(x, ast.Name) and isinstance(x.ctx, ast.Load) and x.id in body_assigned and x.id not in (rid, row):
                    # comprehension-local names are not function locals
                    if _comp_local(fn, x):
                        continue
                    defs = [d for (nm, d) in rd.IN[node.id] if nm == x.id]
                    n += 1
                    ok = bool(defs)
                    if (x.id, ok) in seen and ok:
                        continue
                    seen.add((x.id, ok))
                    fn.ob('LOOPIND', 'a per-row value is assigned in this row before it is read (no value leaks from the previous row)',
                          ok, x, detail='' if ok else '`%s` may be read without having been assigned in this iteration: it then '
                          'holds the previous row\'s value' % x.id, key='definite|' + x.id)
                    if ok:
                        # must be assigned on EVERY path: entry must not reach
                        pass
        # definite assignment: a path from iteration entry to this node without a def
    # stronger: definite assignment through must-analysis
    must = _must_defs(cfg, rd)
    for node in cfg.nodes:
        if node.kind not in ('stmt', 'test', 'for', 'with'):
            continue
        roots = [node.ast.test] if node.kind == 'test' else ([node.ast.iter] if node.kind == 'for' else
                                                              ([i.context_expr for i in node.ast.items] if node.kind == 'with' else [node.ast]))
        for root in roots:
            for x in ast.walk(root):
                if isinstance(x, ast.Name) and isinstance(x.ctx, ast.Load) and x.id in body_assigned and x.id not in (rid, row) \
                        and not _comp_local(fn, x):
                    if node.id not in must:
                        continue
                    ok = x.id in must[node.id]
                    key = ('must', x.id, ok)
                    if key in seen:
                        continue
                    seen.add(key)
                    fn.ob('LOOPIND', 'a per-row value is definitely assigned on every path of this row before it is read', ok, x,
                          detail='' if ok else 'on some path through the row `%s` is not assigned before this read: the previous row\'s '
                          'value (or a value from before the loop) is used' % x.id, key='must|' + x.id)
    # (ii) outer objects are not modified inside the loop
    outer = set()
    for st in fn.ast.body:
        if st is lp:
            break
        outer |= assigned_names([st])
    outer |= set(fn.params)
    outer -= set(result_dicts)
    MUTATORS = {'append', 'extend', 'insert', 'pop', 'remove', 'clear', 'sort', 'reverse', 'update', 'setdefault', 'popitem',
                'add', 'discard'}
    for x in ast.walk(lp):
        bad = None
        if isinstance(x, ast.Call) and isinstance(x.func, ast.Attribute) and x.func.attr in MUTATORS \
                and isinstance(x.func.value, ast.Name) and x.func.value.id in outer and x.func.value.id not in body_assigned:
            bad = x
        if isinstance(x, (ast.Assign, ast.AugAssign)):
            for t in (x.targets if isinstance(x, ast.Assign) else [x.target]):
                if isinstance(t, (ast.Subscript, ast.Attribute)) and root_name(t) in outer and root_name(t) not in body_assigned:
                    bad = x
                if isinstance(t, ast.Name) and t.id in outer and t.id not in (rid, row) and isinstance(x, ast.AugAssign):
                    bad = x
        if bad is not None:
            fn.ob('LOOPIND', 'nothing created before the row loop is modified inside it (except the result dictionaries)', False, bad,
                  detail='`%s` changes state that the next row sees' % norm_stmt(bad), key='outer-mod|' + norm_stmt(bad)[:60])
    # names defined before the loop must not be rebound inside it either (arguments such as plot_dir)
    for nm in sorted(outer & body_assigned):
        sts = [s for s in ast.walk(lp) if isinstance(s, (ast.Assign, ast.AugAssign))
               and nm in sum([target_names(t) for t in (s.targets if isinstance(s, ast.Assign) else [s.target])], [])]
        fn.ob('LOOPIND', 'a name shared by all rows is not rebound inside the row loop', not sts, sts[0] if sts else lp,
              detail='' if not sts else '`%s` rebinds %s for the following rows' % (norm_stmt(sts[0]), nm), key='outer-rebind|' + nm)
    fn.ob('LOOPIND', 'row-loop independence analysed', True, lp, key='analysed')
    cx.count('loop_reads_checked', n)
    return fn


def _comp_local(fn, name_node):
    for a in fn.ancestors(name_node):
        if isinstance(a, (ast.ListComp, ast.GeneratorExp, ast.SetComp, ast.DictComp)):
            for g in a.generators:
                if name_node.id in target_names(g.target):
                    return True
        if isinstance(a, ast.Lambda) and name_node.id in [x.arg for x in a.args.args]:
            return True
    return False


def _must_defs(cfg, rd):
    """Forward must-analysis: names definitely assigned at the start of each node."""
    import networkx as nx
    allnames = set()
    for n in cfg.nodes:
        allnames |= rd.gen[n.id]
    IN = {n.id: set(allnames) for n in cfg.nodes}
    OUT = {n.id: set(allnames) for n in cfg.nodes}
    IN[cfg.entry.id] = set()
    OUT[cfg.entry.id] = set(rd.gen[cfg.entry.id])
    order = list(nx.dfs_preorder_nodes(cfg.g, cfg.entry.id))
    changed = True
    while changed:
        changed = False
        for u in order:
            if u == cfg.entry.id:
                continue
            preds = [p for p in cfg.g.predecessors(u) if p in IN]
            preds = [p for p in preds if p in set(order)]
            if not preds:
                continue
            new_in = set.intersection(*[OUT[p] for p in preds])
            new_out = new_in | rd.gen[u]
            if new_in != IN[u] or new_out != OUT[u]:
                IN[u], OUT[u] = new_in, new_out
                changed = True
    return {u: IN[u] for u in order}


def fault_table(cx):
    """Each documented row fault has its raise site inside the per-row try."""
    rows = []
    # ---- beads
    fb = Fn(cx, BEADS)
    lp, rid, row, tr = row_loop(cx, fb)
    fs = Fn(cx, SAMPLES)
    lps, rids, rows_, trs = row_loop(cx, fs)

    def raises_row(stmts):
        return always_raises(stmts) and raised_types(stmts) == {ROWEXC}

    for fn, t, rw in ((fb, tr, row), (fs, trs, rows_)):
        # file not found
        loads = [c for c in fn.calls('FlowCal.io.FCSData', root=t)]
        ok = len(loads) == 1
        if ok:
            tt = enclosing_tries(fn, fn.cfg.stmt_of(loads[0]))
            ok = len(tt) >= 2 and any(handler_catches(h, 'FileNotFoundError') and raises_row(h.body) for h in tt[0].handlers) \
                and len(tt[0].body) == 1
        fn.ob('EXC', 'file not found -> row error (the load sits alone in a try converting IOError)', ok, loads[0] if loads else t, key='fault-file')
        # fewer than 400 events
        smp = fn.cfg.stmt_of(loads[0]).targets[0].id if loads and isinstance(fn.cfg.stmt_of(loads[0]), ast.Assign) else '?'
        g = [s for s in fn.stmts(ast.If, t) if sym.norm(s.test) == sym.norm('%s.shape[0] < 400' % smp) and raises_row(s.body)]
        ok = len(g) == 1 and any(g[0] is s for s in t.body)
        se = fn.calls('FlowCal.gate.start_end', root=t)
        ok = ok and len(se) == 1 and fn.cfg.dominates(fn.cfg.assume[id(g[0])][1], fn.node(se[0])) if ok else False
        fn.ob('EXC', 'fewer than 400 events -> row error, before the first/last events are trimmed', ok, g[0] if g else t, key='fault-400')
        # gate fraction
        dg = fn.calls('FlowCal.gate.density2d', root=t)
        ok = len(dg) == 1
        if ok:
            tt = enclosing_tries(fn, fn.cfg.stmt_of(dg[0]))
            ok = len(tt) >= 2 and any(handler_catches(h, 'ValueError') and raises_row(h.body) for h in tt[0].handlers)
            if ok:
                h = [h for h in tt[0].handlers if handler_catches(h, 'ValueError')][0]
                r = [x for s in h.body for x in ast.walk(s) if isinstance(x, ast.Raise)][0]
                ok = isinstance(r.exc, ast.Call) and len(r.exc.args) == 1 and h.name is not None and \
                    sym.norm(r.exc.args[0]) in (sym.norm('str(%s)' % h.name), sym.norm('%s.args[0]' % h.name),
                                                sym.norm("'{}'.format(%s)" % h.name))
        fn.ob('EXC', 'gate fraction outside [0,1] (ValueError of the density gate) -> row error carrying the gate\'s message', ok,
              dg[0] if dg else t, key='fault-gate-fraction')
    # beads: unequal numbers of MEF values
    bb = inventory(fb, 'EXC', [
        ('unequal numbers of MEF values across channels are detected', 'if not np.all([len(V) == len(MV[0]) for V in MV]):'),
    ], ['V', 'MV'], root=tr)
    g = bb['__matched__'].get('unequal numbers of MEF values across channels are detected')
    fb.ob('EXC', 'unequal numbers of MEF values across channels -> row error', g is not None and raises_row(g.body), g or tr, key='fault-mef-count')
    # samples: calibration, acquisition settings
    fn, t, rw = fs, trs, rows_
    loads = [c for c in fn.calls('FlowCal.io.FCSData', root=t)]
    smp = fn.cfg.stmt_of(loads[0]).targets[0].id if loads and isinstance(fn.cfg.stmt_of(loads[0]), ast.Assign) else 'sample'
    items = [
        ('calibration missing for the requested beads -> row error', "if mef_transform_fxns[%s['Beads ID']] is None:" % rw),
        ('beads row looked up by the sample\'s Beads ID', "BR = beads_table.loc[%s['Beads ID']]" % rw),
        ('beads instrument read from that row', "BIID = BR['Instrument ID']"),
        ('beads acquired on another instrument -> row error', "if BIID != %s['Instrument ID']:" % rw),
        ('beads amplification type read from the column the beads statistics wrote', "BAT = BR['{} Amp. Type'.format(CH)]"),
        ('sample amplification type: Log iff the channel has decades', "SAT = 'Log' if %s.amplification_type(CH)[0] else 'Linear'" % smp),
        ('beads acquired with another amplification type -> row error', 'if BAT != SAT:'),
        ('beads detector voltage read from the column the beads statistics wrote', "BDV = BR['{} Detector Volt.'.format(CH)]"),
        ('beads acquired with another detector voltage (when the sample records one) -> row error',
         'if %s.detector_voltage(CH) is not None and BDV != %s.detector_voltage(CH):' % (smp, smp)),
    ]
    sb = inventory(fn, 'EXC', items, ['BR', 'BIID', 'BAT', 'SAT', 'BDV', 'CH'], root=t)
    for inst, src in items:
        if inst.endswith('-> row error'):
            g = sb['__matched__'].get(inst)
            if g is not None:
                fn.ob('EXC', inst + ' (raised as the row-level error)', raises_row(g.body), g, key='raises|' + inst[:40])
    # no standard curve for the channel: the transformation call converts ValueError
    from ..rules import expand_temps_ast
    tc = [c for c in fn.calls(root=t) if isinstance(expand_temps_ast(fn, c.func), ast.Subscript)
          and dotted(expand_temps_ast(fn, c.func).value) == 'mef_transform_fxns']
    ok = len(tc) == 1
    if ok:
        tt = enclosing_tries(fn, fn.cfg.stmt_of(tc[0]))
        ok = len(tt) >= 2 and any(handler_catches(h, 'ValueError') and raises_row(h.body) for h in tt[0].handlers) \
            and len(tt[0].body) == 1
    fn.ob('EXC', 'no standard curve for the requested channel (ValueError of the conversion) -> row error', ok, tc[0] if tc else t,
          key='fault-no-curve')
    return fb, fs


def _lowered(fn, test):
    """Copy of a test in which a temporary defined as `<x>.lower()` is written out (one level)."""
    import copy as _copy
    tdefs = fn.temp_defs()

    class T(ast.NodeTransformer):
        def visit_Name(self, n):
            v = tdefs.get(n.id) if isinstance(n.ctx, ast.Load) else None
            if isinstance(v, ast.Call) and isinstance(v.func, ast.Attribute) and v.func.attr == 'lower' and not v.args:
                return _copy.deepcopy(v)
            return n
    return T().visit(_copy.deepcopy(test))


def units_dispatch(cx):
    """The units chain compares one case-folded value, covers exactly the documented spellings and
    ends in a raising else; each unit maps to the documented conversion calls."""
    fn = Fn(cx, SAMPLES)
    lp, rid, row, tr = row_loop(cx, fn)
    from ..rules import expand_temps_ast as _eta
    chains = [s for s in fn.stmts(ast.If, tr) if 'lower' in ast.unparse(_lowered(fn, s.test)) and not (
        isinstance(fn.parent.get(id(s)), ast.If) and s in fn.parent[id(s)].orelse)]
    cx.need(len(chains) == 1, SAMPLES + ': units dispatch chain not found')
    c = chains[0]
    branches = []
    cur = c
    while True:
        branches.append((cur.test, cur.body))
        if len(cur.orelse) == 1 and isinstance(cur.orelse[0], ast.If):
            cur = cur.orelse[0]
        else:
            els = cur.orelse
            break
    spell = {}
    folded = None
    okshape = True
    from ..rules import expand_temps_ast
    for t, body in branches:
        t = _lowered(fn, t)                # `u = units.lower()` may sit in a temporary
        parts = t.values if isinstance(t, ast.BoolOp) and isinstance(t.op, ast.Or) else [t]
        vals = []
        for p in parts:
            if isinstance(p, ast.Compare) and len(p.ops) == 1 and isinstance(p.ops[0], ast.Eq) and isinstance(p.comparators[0], ast.Constant):
                vals.append(p.comparators[0].value)
                lhs = p.left
            elif isinstance(p, ast.Compare) and len(p.ops) == 1 and isinstance(p.ops[0], ast.In) \
                    and isinstance(p.comparators[0], (ast.Tuple, ast.List, ast.Set)) \
                    and all(isinstance(e, ast.Constant) for e in p.comparators[0].elts):
                vals += [e.value for e in p.comparators[0].elts]
                lhs = p.left
            else:
                okshape = False
                continue
            f = sym.norm(lhs)
            folded = folded or f
            okshape = okshape and f == folded
        for v in vals:
            spell[v] = body
    uvar = None
    if okshape and folded and folded[0] == 'call' and isinstance(folded[1], tuple) and folded[1][0] == 'attr' and folded[1][2] == 'lower':
        uvar = folded[1][1]
    fn.ob('DISPATCH', 'every branch compares the same lower-cased units string with constants (equality or membership in a tuple)',
          okshape and uvar is not None, c, key='dispatch-shape')
    ok = set(spell) == {'channel', 'rfi', 'a.u.', 'au', 'mef'}
    fn.ob('DISPATCH', 'recognised units are exactly channel, rfi, a.u., au, mef', ok, c, detail=str(sorted(spell)), key='dispatch-set')
    ok = always_raises(els) and raised_types(els) == {ROWEXC}
    fn.ob('DISPATCH', 'any other units string is a row error', ok, c, key='dispatch-else')
    if set(spell) != {'channel', 'rfi', 'a.u.', 'au', 'mef'}:
        return fn
    # the units string is the stripped cell
    if uvar and uvar[0] == 'var':
        d = [s for s in fn.stmts(ast.Assign, tr) if isinstance(s.targets[0], ast.Name) and s.targets[0].id == uvar[1]]
        ok = len(d) == 1 and isinstance(d[0].value, ast.Call) and isinstance(d[0].value.func, ast.Attribute) and d[0].value.func.attr == 'strip'
        fn.ob('DISPATCH', 'the units cell is compared after trimming blanks', ok, d[0] if d else c, key='dispatch-strip')

    def conv_calls(body):
        out = []
        for s in body:
            for x in ast.walk(s):
                if isinstance(x, ast.Assign) and isinstance(x.value, ast.Call):
                    d0 = dotted(x.value.func)
                    fx = expand_temps_ast(fn, x.value.func)        # the row's function may sit in a temporary
                    if d0 == 'FlowCal.transform.to_rfi':
                        out.append(('to_rfi', x))
                    elif isinstance(fx, ast.Subscript) and dotted(fx.value) == 'mef_transform_fxns':
                        out.append(('mef', x))
        return out
    # loop channel variable
    floop = [a for a in fn.ancestors(c) if isinstance(a, ast.For)][0]
    ch = floop.target.id
    smp = None
    want = {'channel': [], 'rfi': ['to_rfi'], 'a.u.': ['to_rfi'], 'au': ['to_rfi'], 'mef': ['to_rfi', 'mef']}
    for u, body in spell.items():
        calls = conv_calls(body)
        kinds = [k for k, _ in calls]
        ok = kinds == want[u]
        for k, st in calls:
            s0 = st.targets[0]
            smp = smp or (s0.id if isinstance(s0, ast.Name) else None)
            if k == 'to_rfi':
                ok = ok and fn.eqv(st.value, 'FlowCal.transform.to_rfi(%s, %s)' % (smp, ch)) is not None and sym.norm(s0) == ('var', smp)
            else:
                ok = ok and fn.eqv(st.value, "mef_transform_fxns[%s['Beads ID']](%s, %s)" % (row, smp, ch)) is not None and sym.norm(s0) == ('var', smp)
        if kinds == want[u]:
            for k, st in calls:
                fn.ctx_ob('DISPATCH', 'units %r: conversion %s' % (u, k), st)
                if ok:
                    cx.documented.add(id(st))
        if u == 'mef' and len(calls) == 2:
            ok = ok and calls[0][1].lineno < calls[1][1].lineno
        fn.ob('DISPATCH', 'units %r: %s' % (u, {'channel': 'values left as channel numbers', 'rfi': 'converted to RFI', 'a.u.': 'converted to RFI',
                                               'au': 'converted to RFI', 'mef': 'converted to RFI, then with the referenced beads\' calibration'}[u]),
              ok, body[0], detail='' if ok else 'calls: %s' % kinds, key='dispatch-' + u)
    # a channel is registered for reporting only after its conversion succeeded
    reg = [s for s in fn.stmts(ast.Expr, floop) if isinstance(s.value, ast.Call) and isinstance(s.value.func, ast.Attribute)
           and s.value.func.attr == 'append' and len(s.value.args) == 1 and sym.norm(s.value.args[0]) == ('var', ch)]
    ok = len(reg) == 1 and reg[0].lineno > c.end_lineno and any(reg[0] is s for s in fn.parent[id(c)].body) if reg else False
    fn.ob('DISPATCH', 'a channel is reported only after its conversion, and every converted channel is reported', ok, reg[0] if reg else c,
          key='report-after')
    # empty units cell -> channel left alone
    sk = [s for s in fn.stmts(ast.If, floop) if isinstance(s.test, ast.Call) and dotted(s.test.func) == 'pd.isnull'
          and isinstance(s.body[0], ast.Continue) and uvar is not None and uvar[0] == 'var'
          and any(isinstance(d_, ast.Assign) and dotted(d_.targets[0]) == uvar[1] and dotted(s.test.args[0]) in ast.unparse(d_.value)
                  for d_ in fn.stmts(ast.Assign, floop))]
    fn.ob('DISPATCH', 'a channel without units is left alone', len(sk) == 1, sk[0] if sk else floop, key='no-units')
    return fn


def union_discipline(cx, qual, dict_param):
    """samples[row] is `sample | row error`: every use as a sample is dominated by the negative
    outcome of isinstance(.., ExcelUIException)."""
    fn = Fn(cx, qual)
    n = 0
    uses = []
    # local aliases of a row result:  x = samples[row]
    alias = {}
    alias_sts = []
    for st in fn.stmts(ast.Assign):
        if isinstance(st.targets[0], ast.Name) and isinstance(st.value, ast.Subscript) and dotted(st.value.value) == dict_param:
            alias[st.targets[0].id] = st
            alias_sts.append(st)
    for x in fn.walk():
        is_res = isinstance(x, ast.Subscript) and dotted(x.value) == dict_param and isinstance(x.ctx, ast.Load)
        is_alias = isinstance(x, ast.Name) and x.id in alias and isinstance(x.ctx, ast.Load)
        if is_res or is_alias:
            par = fn.parent.get(id(x))
            if isinstance(par, ast.Call) and dotted(par.func) in ('isinstance', 'str') and par.args[0] is x:
                continue
            if is_res and isinstance(par, ast.Assign) and any(par is a_ for a_ in alias_sts):
                continue          # the aliasing assignment itself uses nothing of the value
            uses.append(x)
    for u in uses:
        if isinstance(u, ast.Name):
            src = alias[u.id].value
            keys = [sym.norm(src.slice)]
            tests = [sym.norm('isinstance(%s, %s)' % (u.id, ROWEXC)),
                     sym.norm('isinstance(%s[K], %s)' % (dict_param, ROWEXC), env={'K': keys[0]})]
        else:
            tests = [sym.norm('isinstance(%s[K], %s)' % (dict_param, ROWEXC), env={'K': sym.norm(u.slice)})]
            for a_, st_ in alias.items():
                if sym.norm(st_.value.slice) == sym.norm(u.slice):
                    tests.append(sym.norm('isinstance(%s, %s)' % (a_, ROWEXC)))
        ok = False
        for g in fn.stmts(ast.If):
            if sym.norm(g.test) in tests:
                a_t, a_f = fn.cfg.assume[id(g)]
                if fn.cfg.dominates(a_f, fn.node(u)) and fn.cfg.node_of(g).id != fn.node(u).id:
                    ok = True
        if not ok:
            # the test may be one conjunct of a larger one (`if not isinstance(..) and pd.notnull(..):`): look at the
            # literals of the conditions under which the use runs
            from ..rules import run_context, _abstract
            st_u = fn.cfg.stmt_of(u)
            ctx_u = set(run_context(fn, st_u, None, resolved=False) or [])
            run_context(fn, st_u, None)          # makes sure the set of local names exists
            for tnf in tests:
                if 'unless ' + sym.show(_abstract(tuple(tnf), {}, fn._local_names)) in ctx_u:
                    ok = True
        n += 1
        fn.ob('UNION', 'a row result is used as a sample only where it is known not to be a row error', ok, u,
              detail='' if ok else '`%s` may be an %s here' % (norm_stmt(u), ROWEXC), key='union|' + norm_stmt(fn.cfg.stmt_of(u))[:80])
    return fn, n


def error_rows_rendered(cx, qual, dict_param):
    fn = Fn(cx, qual)
    tbl = fn.params[0]
    b = inventory(fn, 'UNION', [
        ('rows are visited in table order', 'for R in %s.index:' % tbl),
        ('the statistics loop visits the rows in table order as well', 'for R in %s.index:' % tbl),
        ('an error row is recognised by its type', 'if isinstance(%s[R], %s):' % (dict_param, ROWEXC)),
        ('an error row gets an ERROR: note with the error text', "NOTES.append('ERROR: {}'.format(str(%s[R])))" % dict_param),
        ('... and no event count', 'NEV.append(np.nan)'),
        ('... and no acquisition time', 'ACQ.append(np.nan)'),
        ('a good row gets an empty note', "NOTES.append('')"),
        ('... its event count', 'NEV.append(%s[R].shape[0])' % dict_param),
        ('... and its acquisition time', 'ACQ.append(%s[R].acquisition_time)' % dict_param),
        ('notes column', "%s['Analysis Notes'] = NOTES" % tbl),
        ('event count column', "%s['Number of Events'] = NEV" % tbl),
        ('acquisition time column', "%s['Acquisition Time (s)'] = ACQ" % tbl),
    ], ['R', 'NOTES', 'NEV', 'ACQ'])
    # statistics loops skip error rows
    # statistics are written (table.at[row, ...] = statistic) only for rows that are not error rows
    from ..rules import run_context, _abstract
    stores = [st for st, t in subscript_stores(fn) if isinstance(t.value, ast.Attribute) and t.value.attr == 'at' and dotted(t.value.value) == tbl]
    run_context(fn, fn.ast.body[0], None)
    lit = 'unless ' + sym.show(_abstract(sym.norm('isinstance(%s[R], %s)' % (dict_param, ROWEXC)), {}, fn._local_names | {'R'}))
    bad = [st for st in stores if 'Analysis Notes' not in ast.unparse(st.targets[0]) and lit not in (run_context(fn, st, None, resolved=False) or [])]
    fn.ob('UNION', 'the statistics loop skips error rows (their statistics stay empty)', bool(stores) and not bad, bad[0] if bad else fn.ast,
          key='skip-errors')
    return fn


# ---------------------------------------------------------------------------
# C10: the per-row pipeline is the documented composition

def _direct_child_of_try(fn, st, tr, allowed_ifs=()):
    """st is a statement of the try body, possibly nested only inside the allowed conditionals."""
    prev = st
    for a in fn.ancestors(st):
        if a is tr:
            return any(prev is x for x in tr.body)
        if isinstance(a, ast.If) and any(sym.norm(a.test) == sym.norm(t) for t in allowed_ifs) and not a.orelse:
            prev = a
            continue
        if isinstance(a, ast.Try) and a is not tr and any(prev is x for x in a.body):
            prev = a
            continue
        return False
    return False


def samples_pipeline(cx):
    fn = Fn(cx, SAMPLES)
    lp, rid, row, tr = row_loop(cx, fn)
    RD = result_dicts_of(cx, fn, lp)[0][0]
    items = [
        ('instrument row looked up by the sample\'s Instrument ID', "IR = instruments_table.loc[%s['Instrument ID']]" % row),
        ('scatter channels = forward and side scatter channel of the instrument',
         "SC = [IR['Forward Scatter Channel'], IR['Side Scatter Channel']]"),
        ('fluorescence channels = comma separated list of the instrument, trimmed', "FL = [X.strip() for X in IR['Fluorescence Channels'].split(',')]"),
        ('file path relative to the workbook', "FN = os.path.join(base_dir, %s['File Path'])" % row),
        ('stage 1: load', 'S = FlowCal.io.FCSData(FN)'),
        ('stage 2: scatter channels to RFI', 'S = FlowCal.transform.to_rfi(S, SC)'),
        ('stage 4: drop the first 250 and last 100 events', 'G = FlowCal.gate.start_end(S, num_start=250, num_end=100)'),
        ('stage 5: saturation gate only for integer data', "if G.data_type == 'I':"),
        ('stage 5: remove saturated events in scatter and reported channels', 'G = FlowCal.gate.high_low(G, SC + RC)'),
        ('stage 6: density gate on the scatter channels at the row\'s fraction',
         "DGO = FlowCal.gate.density2d(data=G, channels=SC, gate_fraction=%s['Gate Fraction'], xscale='logicle', yscale='logicle', full_output=True)" % row),
        ('stage 6: gated sample is the gate\'s output', 'G = DGO.gated_data'),
        ('stage 7: the gated sample is the row\'s result', '%s[%s] = G' % (RD, rid)),
        ('reported channels start empty for each row', 'RC = []'),
    ]
    b = inventory(fn, 'PIPE', items, ['IR', 'SC', 'FL', 'X', 'FN', 'S', 'G', 'RC', 'DGO'], root=lp)
    S, G = b.get('S'), b.get('G')
    if not (S and G and all(k in b for k in ('FN', 'SC', 'RC', 'DGO'))):
        return fn
    S, G = S[1], G[1]
    # no other definition of the sample variables than the documented stages (+ the dispatch conversions)
    allowed = {sym.stmt_nf(ast.parse(x).body[0]) for x in (
        '%s = FlowCal.io.FCSData(%s)' % (S, b['FN'][1]), '%s = FlowCal.transform.to_rfi(%s, %s)' % (S, S, b['SC'][1]),
        '%s = FlowCal.gate.start_end(%s, num_start=250, num_end=100)' % (G, S),
        '%s = FlowCal.gate.high_low(%s, %s + %s)' % (G, G, b['SC'][1], b['RC'][1]),
        '%s = %s.gated_data' % (G, b['DGO'][1]))}
    extra = []
    for st in fn.stmts(ast.Assign, lp):
        for t in st.targets:
            if isinstance(t, ast.Name) and t.id in (S, G):
                nf = sym.stmt_nf(st)
                if nf in allowed:
                    continue
                # dispatch conversions of a single fluorescence channel
                v = st.value
                from ..rules import expand_temps_ast
                vf = expand_temps_ast(fn, v.func) if isinstance(v, ast.Call) else None     # the row's function may sit in a temporary
                if t.id == S and isinstance(v, ast.Call) and (
                        (dotted(v.func) == 'FlowCal.transform.to_rfi' and len(v.args) == 2 and dotted(v.args[0]) == S) or
                        (isinstance(vf, ast.Subscript) and dotted(vf.value) == 'mef_transform_fxns' and dotted(v.args[0]) == S)):
                    continue
                extra.append(st)
    fn.ob('PIPE', 'the sample is only ever replaced by the output of a documented stage', not extra, extra[0] if extra else lp,
          detail='' if not extra else '`%s`' % norm_stmt(extra[0]), key='no-extra-stage')
    # every stage is executed on every normal path (only the documented conditionals around it)
    for inst, pat, opts in [(i[0], i[1], None) for i in items if i[0].startswith('stage')]:
        pass
    stage_stmts = {}
    for st in fn.stmts((ast.Assign,), lp):
        nf = sym.stmt_nf(st)
        for i, (inst, src) in enumerate(items):
            if inst.startswith('stage') and sym.unify(sym.parse_pattern(src), nf, {k: v for k, v in b.items() if k != '__matched__'}, {k for k in b if k != '__matched__'}) is not None:
                stage_stmts[inst] = st
    for inst, st in sorted(stage_stmts.items()):
        cond = ["%s.data_type == 'I'" % G] if 'stage 5' in inst else []
        ok = _direct_child_of_try(fn, st, tr, cond) if 'stage 7' not in inst else any(st is x for x in tr.orelse)
        fn.ob('PIPE', '%s happens for every row (no shortcut around it)' % inst.split(':')[0], ok, st,
              detail='' if ok else 'the stage is conditional', key='unconditional|' + inst.split(':')[0] + inst[-12:])
    # order of the stages
    order = ['stage 1: load', 'stage 2: scatter channels to RFI', 'stage 4: drop the first 250 and last 100 events',
             'stage 5: remove saturated events in scatter and reported channels',
             'stage 6: density gate on the scatter channels at the row\'s fraction', 'stage 6: gated sample is the gate\'s output']
    lines = [stage_stmts[o].lineno for o in order if o in stage_stmts]
    ok = len(lines) == len(order) and lines == sorted(lines)
    fn.ob('PIPE', 'stages run in the documented order: load, scatter RFI, unit conversions, trim, de-saturate, density gate', ok, lp, key='order')
    # the conversions (stage 3) happen between stage 2 and stage 4
    ch = [s for s in fn.stmts(ast.If, tr) if 'lower' in ast.unparse(s.test)]
    if ch and 'stage 2: scatter channels to RFI' in stage_stmts and order[2] in stage_stmts:
        ok = stage_stmts['stage 2: scatter channels to RFI'].lineno < ch[0].lineno < stage_stmts[order[2]].lineno
        fn.ob('PIPE', 'unit conversions happen after the scatter conversion and before trimming', ok, ch[0], key='order-conversions')
    # conversions loop over the instrument's fluorescence channels, restricted to channels that have a units column
    floop = [f for f in fn.stmts(ast.For, tr) if sym.norm(f.iter) == ('var', b['FL'][1])]
    fn.ob('PIPE', 'conversions visit the instrument\'s fluorescence channels in order', len(floop) == 1, floop[0] if floop else tr, key='fl-loop')
    return fn


def beads_pipeline(cx):
    fn = Fn(cx, BEADS)
    lp, rid, row, tr = row_loop(cx, fn)
    RD = result_dicts_of(cx, fn, lp)[0][0]
    items = [
        ('instrument row looked up by the beads\' Instrument ID', "IR = instruments_table.loc[%s['Instrument ID']]" % row),
        ('scatter channels', "SC = [IR['Forward Scatter Channel'], IR['Side Scatter Channel']]"),
        ('fluorescence channels: the instrument\'s comma separated list, trimmed', "FL = [X.strip() for X in IR['Fluorescence Channels'].split(',')]"),
        ('file path relative to the workbook', "FN = os.path.join(base_dir, %s['File Path'])" % row),
        ('stage 1: load', 'S = FlowCal.io.FCSData(FN)'),
        ('stage 2: scatter and fluorescence channels to RFI', 'S = FlowCal.transform.to_rfi(S, SC + FL)'),
        ('clustering channels: the row\'s comma separated list, trimmed', "CC = [Y.strip() for Y in %s['Clustering Channels'].split(',')]" % row),
        ('stage 3: drop the first 250 and last 100 events', 'G = FlowCal.gate.start_end(S, num_start=250, num_end=100)'),
        ('stage 4: saturation gate only for integer data', "if G.data_type == 'I':"),
        ('stage 4: remove saturated events in the scatter channels', 'G = FlowCal.gate.high_low(G, channels=SC)'),
        ('stage 5: density gate on the scatter channels at the row\'s fraction',
         "DGO = FlowCal.gate.density2d(data=G, channels=SC, gate_fraction=%s['Gate Fraction'], xscale='logicle', yscale='logicle', sigma=5.0, full_output=True)" % row),
        ('stage 5: gated sample is the gate\'s output', 'G = DGO.gated_data'),
        ('MEF values of a channel: the comma separated cell', "MEF = MS.split(',')"),
        ('MEF values parsed per channel: integers, anything else unknown',
         'MEF = [int(E) if E.strip().isdigit() else np.nan for E in MEF]'),
        ('stage 6: calibration from the gated beads with the row\'s values, channels and clustering channels',
         "MO = FlowCal.mef.get_transform_fxn(G, MV, mef_channels=MC, clustering_channels=CC, verbose=False, plot=plot, plot_filename=%s, plot_dir=os.path.join(base_dir, plot_dir) if plot_dir is not None else None, full_output=full_output, **get_transform_fxn_kwargs)" % rid),
        ('the gated beads are the row\'s result', '%s[%s] = G' % (RD, rid)),
    ]
    b = inventory(fn, 'PIPE', items, ['IR', 'SC', 'FL', 'X', 'Y', 'FN', 'S', 'G', 'CC', 'DGO', 'MEF', 'E', 'MO', 'MV', 'MC', 'MS'], root=lp)
    return fn


STAT_COLUMNS = [('Mean', 'mean', False), ('Geom. Mean', 'gmean', True), ('Median', 'median', False), ('Mode', 'mode', False),
                ('Std', 'std', False), ('CV', 'cv', False), ('Geom. Std', 'gstd', True), ('Geom. CV', 'gcv', True),
                ('IQR', 'iqr', False), ('RCV', 'rcv', False)]


def stats_table(cx):
    fn = Fn(cx, 'excel_ui.add_samples_stats')
    tbl, smp = fn.params[0], fn.params[1]
    items = []
    for col, f, geo in STAT_COLUMNS:
        items.append(('column %s starts empty' % col, "%s[C + ' %s'] = np.nan" % (tbl, col)))
        arg = 'SP' if geo else '%s[R]' % smp
        items.append(('column %s is FlowCal.stats.%s of the %s' % (col, f, 'positive events of the gated sample' if geo else 'gated sample'),
                      "%s.at[R, C + ' %s'] = FlowCal.stats.%s(%s, C)" % (tbl, col, f, arg)))
    items += [
        ('non-positive events are detected per channel', 'if np.any(%s[R][:, C] <= 0):' % smp),
        ('positive-only sample: events strictly greater than 0 in the channel', 'SP = %s[R][%s[R][:, C] > 0]' % (smp, smp)),
        ('no non-positive events: the whole gated sample', 'SP = %s[R]' % smp),
        ('the note says that geometric statistics use positive events only', "%s.at[R, 'Analysis Notes'] = MSG" % tbl),
        ('note text: channel and percentage of positive events',
         "MSG = 'Geometric statistics for channel' + ' {} calculated on positive events'.format(C) + "
         "' only ({:.1f}%%). '.format(100.0 * SP.shape[0] / %s[R].shape[0])" % smp),
        ('the note is added to the notes the row already has (one note per channel)', "MSG = %s.loc[R, 'Analysis Notes'] + MSG" % tbl),
        ('... when it has some', "if %s.loc[R, 'Analysis Notes']:" % tbl),
        ('statistics are computed only where units are given', 'if pd.notnull(%s[H][R]):' % tbl),
    ]
    b = inventory(fn, 'TABLE', items, ['C', 'R', 'SP', 'MSG', 'H'], ordered_add=True)
    # bijection: ten distinct functions of FlowCal.stats, ten distinct columns
    calls = [c for c in fn.calls() if (dotted(c.func) or '').startswith('FlowCal.stats.')]
    fns = sorted(dotted(c.func).split('.')[-1] for c in calls)
    ok = fns == sorted(f for _, f, _ in STAT_COLUMNS)
    fn.ob('TABLE', 'the ten statistics columns are a bijection with the ten library statistics', ok, fn.ast, detail=str(fns), key='bijection')
    # headers <-> channels: zip of matching headers and their captured channel names
    inventory(fn, 'TABLE', [
        ('statistics headers are the units columns', 'SH = [HH for HH in HS if re_units.match(HH)]'),
        ('channel names are captured from the same headers', 'SCH = [re_units.match(HH).group(1) for HH in SH]'),
        ('header and channel are iterated together', 'for H, C in zip(SH, SCH):'),
    ], ['SH', 'HH', 'HS', 'SCH', 'H', 'C'])
    return fn


def histograms_table(cx):
    fn = Fn(cx, 'excel_ui.generate_histograms_table')
    tbl, smp = fn.params[0], fn.params[1]
    items = [
        ('units of the row/channel', 'UNIT = %s[H][R]' % tbl),
        ('linear scale iff the units are channel numbers, otherwise logicle', "SCALE = 'linear' if UNIT == 'Channel' else 'logicle'"),
        ('number of bins = min(resolution of the channel, max_bins)', 'NB = min(%s[R].resolution(C), max_bins)' % smp),
        ('edges and centres come from the library\'s grid with twice the bins', 'BE = %s[R].hist_bins(C, 2 * NB, SCALE)' % smp),
        ('edges are every other point', 'EDGES = BE[::2]'),
        ('centres are the points in between', 'CENTERS = BE[1::2]'),
        ('counts are the histogram of the gated events of the channel over those edges', 'HIST, _U = np.histogram(%s[R][:, C], bins=EDGES)' % smp),
        ('counts row', "HT.loc[(R, C, 'Counts'), COLS[0:len(CENTERS)]] = HIST"),
        ('centres row', "HT.loc[(R, C, 'Bin Centers ({})'.format(UNIT)), COLS[0:len(CENTERS)]] = CENTERS"),
        ('rows without units are skipped', 'if pd.notnull(%s[H][R]):' % tbl),
    ]
    inventory(fn, 'TABLE', items, ['UNIT', 'H', 'R', 'C', 'SCALE', 'NB', 'BE', 'EDGES', 'CENTERS', 'HIST', '_U', 'HT', 'COLS'])
    return fn


# ---------------------------------------------------------------------------
# C15: run(), read_table, write_workbook

def run_sequence(cx):
    fn = Fn(cx, 'excel_ui.run')
    items = [
        ('instruments sheet read with ID as index', "IT = read_table(input_path, sheetname='Instruments', index_col='ID')"),
        ('beads sheet read with ID as index', "BT = read_table(input_path, sheetname='Beads', index_col='ID')"),
        ('samples sheet read with ID as index', "ST = read_table(input_path, sheetname='Samples', index_col='ID')"),
        ('beads processed with full output', "BS, MF, MO = process_beads_table(BT, IT, base_dir=ID, verbose=verbose, plot=plot, plot_dir='plot_beads', full_output=True)"),
        ('beads statistics added to the beads table', 'add_beads_stats(BT, BS, MO)'),
        ('samples processed with the beads\' calibrations and the extended beads table',
         "SS = process_samples_table(ST, IT, mef_transform_fxns=MF, beads_table=BT, base_dir=ID, verbose=verbose, plot=plot, plot_dir='plot_samples')"),
        ('sample statistics added to the samples table', 'add_samples_stats(ST, SS)'),
        ('histograms from the samples table and results', 'HT = generate_histograms_table(ST, SS)'),
        ('about table', "AT = generate_about_table({'Input file path': input_path})"),
        ('sheets 1-3: Instruments, Beads, Samples, in this order', "TL = [('Instruments', IT), ('Beads', BT), ('Samples', ST)]"),
        ('optional sheet: Histograms', "TL.append(('Histograms', HT))"),
        ('last sheet: About Analysis', "TL.append(('About Analysis', AT))"),
        ('workbook written', 'write_workbook(output_path, TL)'),
        ('directory of the workbook', 'ID, IF = os.path.split(input_path)'),
    ]
    b = inventory(fn, 'SEQ', items, ['IT', 'BT', 'ST', 'BS', 'MF', 'MO', 'SS', 'HT', 'AT', 'TL', 'ID', 'IF'],
                  rebind_ok=('input_path', 'output_path'))
    # order
    def line(src_head):
        for st in fn.stmts((ast.Assign, ast.Expr)):
            if src_head in ast.unparse(st):
                return st.lineno
        return None
    seq = ['read_table(input_path', 'process_beads_table(', 'add_beads_stats(', 'process_samples_table(', 'add_samples_stats(',
           "generate_about_table(", "[('Instruments'", "append(('Histograms'",
           "append(('About Analysis'", 'write_workbook(']
    lines = [line(s) for s in seq]
    ok = None not in lines and lines == sorted(lines)
    fn.ob('SEQ', 'reading, beads, beads statistics, samples, sample statistics, about, sheet list in order, writing', ok, fn.ast,
          detail=str(lines), key='order')
    # Histograms iff hist_sheet, both for generation and for the sheet
    hs = [s for s in fn.stmts(ast.If) if sym.norm(s.test) == ('var', 'hist_sheet')]
    ok = len(hs) == 2 and any('generate_histograms_table' in ast.unparse(s) for s in hs) and any("'Histograms'" in ast.unparse(s) for s in hs)
    fn.ob('SEQ', 'the Histograms sheet is generated and written iff requested', ok, hs[0] if hs else fn.ast, key='hist-optional')
    # all other sheet appends and the write are unconditional (apart from the early return without input file)
    w = fn.calls('write_workbook')
    if w:
        st = fn.cfg.stmt_of(w[0])
        ok = fn.parent.get(id(st)) is fn.ast
        fn.ob('SEQ', 'the workbook is written on every path that processed the tables', ok, st, key='write-unconditional')
    for name in ('Instruments', 'Beads', 'Samples', 'About Analysis'):
        ap = [s for s in fn.stmts((ast.Expr, ast.Assign)) if "('%s'" % name in ast.unparse(s) and 'table' in ast.unparse(s).lower()]
        ok = len(ap) == 1 and fn.parent.get(id(ap[0])) is fn.ast
        fn.ob('SEQ', 'sheet %s is always written' % name, ok, ap[0] if ap else fn.ast, key='sheet-' + name)
    # closed world: run() calls nothing but the documented steps (a new call - creating folders, checking paths, converting
    # a table - may fail or have effects before the workbook is written and is a new step to be decided by a human)
    RUN_CALLS = {'read_table', 'process_beads_table', 'add_beads_stats', 'process_samples_table', 'add_samples_stats',
                 'generate_histograms_table', 'generate_about_table', 'write_workbook', 'show_open_file_dialog',
                 'os.path.split', 'os.path.splitext', 'os.path.join', 'print', 'plt.show', 'time.time', 'time.sleep'}
    for c in fn.calls():
        d = dotted(c.func)
        if d is None and isinstance(c.func, ast.Attribute):
            d = '<value>.' + c.func.attr
        okc = d in RUN_CALLS or (d or '').endswith('.format') or (d or '').endswith('.append')
        if not okc:
            fn.ob('SEQ', 'run() performs the documented calls only', False, c, detail='undocumented call `%s`' % (d or norm_stmt(c)), key='callset|' + (d or '?'))
    fn.ob('SEQ', 'run() performs the documented calls only (closed set of callees)', True, fn.ast, key='callset')
    # default output path next to the input
    inventory(fn, 'SEQ', [
        ('default output name', "OF = '{}_output.xlsx'.format(NOEXT)"),
        ('default output path next to the input', 'output_path = os.path.join(ID, OF)'),
        ('... only when no output path was given', 'if output_path is None:'),
        ('directory and file name of the workbook', 'ID, IF = os.path.split(input_path)'),
        ('file name without its extension (suffix split, not character stripping)', 'NOEXT, EXT = os.path.splitext(IF)'),
    ], ['OF', 'NOEXT', 'ID', 'IF', 'EXT'], rebind_ok=('input_path', 'output_path'))
    return fn


def read_write(cx):
    fn = Fn(cx, 'excel_ui.read_table')
    g = [x for x, p in guards(fn, exc=['TypeError']) if not p]
    ok = len(g) == 1 and sym.norm(g[0].test) == sym.norm(
        "sheetname is None or (hasattr(sheetname, '__iter__') and not isinstance(sheetname, six.string_types))")
    fn.ob('GUARD', 'a missing sheet name or a list of sheets is refused', ok, g[0] if g else fn.ast, key='sheet-refusal')
    rb = inventory(fn, 'GUARD', [
        ('rows without an identifier are dropped', 'T = T[pd.notnull(T.index)]'),
        ('... when an index column is used', 'if index_col is not None:'),
        ('duplicated identifiers are detected', 'if T.index.has_duplicates:'),
        ('the table read is what is returned', 'return T'),
        ('pandas reads the requested sheet with the requested index column', "KW = {'io': MEM, 'sheet_name': sheetname, 'index_col': index_col}"),
        ('the file is read into memory first', 'MEM = six.BytesIO(F.read())'),
        ('first engine: openpyxl', "KW['engine'] = 'openpyxl'"),
        ('second engine xlrd (pandas does not know openpyxl)', "KW['engine'] = 'xlrd'"),
        ('second engine xlrd (openpyxl cannot be imported, refuses the file type, or the file is not a zip archive: one handler in canonical form)',
         "KW['engine'] = 'xlrd'"),
        ('the engine the caller asked for', "KW['engine'] = engine"),
        ('read with the first engine (openpyxl)', 'T = pd.read_excel(**KW)'),
        ('read again with xlrd when pandas does not know openpyxl', 'T = pd.read_excel(**KW)'),
        ('read again with xlrd when openpyxl cannot be imported, refuses the file type, or the file is not a zip archive', 'T = pd.read_excel(**KW)'),
        ('read with the engine the caller asked for', 'T = pd.read_excel(**KW)'),
    ], ['T', 'KW', 'MEM', 'F'])
    m = rb['__matched__']
    drop, dup, cond = m.get('rows without an identifier are dropped'), m.get('duplicated identifiers are detected'), m.get('... when an index column is used')
    if drop is not None and cond is not None:
        fn.ob('GUARD', 'the drop happens exactly when an index column is used', fn.in_body_of(drop, cond, 'body'), drop, key='drop-cond')
    if dup is not None:
        fn.ob('GUARD', 'duplicated identifiers are refused (ValueError)', always_raises(dup.body) and 'ValueError' in raised_types(dup.body), dup, key='dup-refusal')
    if drop is not None and dup is not None:
        ok = drop.lineno < dup.lineno and not fn.cfg.reaches_avoiding(fn.cfg.node_of(dup), fn.node(drop), [])
        fn.ob('GUARD', 'identifier-less rows are dropped before duplicates are looked for', ok, dup, key='drop-before-dup')
    fw = Fn(cx, 'excel_ui.write_workbook')
    inventory(fw, 'SEQ', [
        ('every (name, table) pair is written', 'for SN, DF in table_list:'),
        ('identifiers become regular columns', 'DF = DF.reset_index()'),
        ('each table goes to the sheet of its own name, without a second index', 'DF.to_excel(W, sheet_name=SN, index=False)'),
        ('one writer for the requested file', "W = pd.ExcelWriter(filename, engine='openpyxl')"),
        ('the workbook is closed (saved)', 'W.close()'),
        ('column width of every column of the sheet', 'W.sheets[SN].column_dimensions[CL].width = WD'),
        ('... addressed by its spreadsheet letter', 'CL = openpyxl.utils.get_column_letter(I + 1)'),
        ('... over the columns of the table', 'for I, (CN, CO) in enumerate(six.iteritems(DF)):'),
        ('automatic width: when no width is given', 'if column_width is None:'),
        ('automatic width: the widest cell as text', 'MC = CO.astype(str).str.len().max()'),
        ('automatic width: ... or the column name if wider', 'MC = max(len(CN), MC)'),
        ('automatic width', 'WD = float(MC)'),
        ('given width', 'WD = float(column_width)'),
    ], ['SN', 'DF', 'W', 'CL', 'WD', 'I', 'CN', 'CO', 'MC'])
    cl = [c for c in fw.calls() if isinstance(c.func, ast.Attribute) and c.func.attr == 'close']
    ok = bool(cl) and fw.parent.get(id(fw.cfg.stmt_of(cl[0]))) is fw.ast
    fw.ob('SEQ', 'closing is unconditional', ok, cl[0] if cl else fw.ast, key='close-unconditional')
    return fn, fw


def column_agreement(cx):
    """Columns written by add_beads_stats are the columns process_samples_table reads."""
    w = Fn(cx, 'excel_ui.add_beads_stats')
    r = Fn(cx, SAMPLES)

    def templates(fn, needle):
        out = set()
        for n in fn.walk(into_nested=True):
            if isinstance(n, ast.BinOp) and isinstance(n.op, ast.Add) and isinstance(n.right, ast.Constant) \
                    and isinstance(n.right.value, str) and needle in n.right.value and isinstance(n.left, ast.Name):
                out.add('{}' + n.right.value)
            if isinstance(n, ast.Call) and isinstance(n.func, ast.Attribute) and n.func.attr == 'format' \
                    and isinstance(n.func.value, ast.Constant) and isinstance(n.func.value.value, str) and needle in n.func.value.value:
                out.add(n.func.value.value)
        return out
    for needle, what in ((' Amp. Type', 'amplification type'), (' Detector Volt.', 'detector voltage')):
        tw, tr_ = templates(w, needle), templates(r, needle)
        ok = len(tw) == 1 and tw == tr_
        w.ob('TABLE', 'the %s column the beads statistics write is the column the samples processing reads' % what, ok, w.ast,
             detail='' if ok else 'written %s, read %s' % (sorted(tw), sorted(tr_)), key='column|' + needle.strip())
    inventory(w, 'TABLE', [
        ('detector voltage column created per MEF channel', "T[C + ' Detector Volt.'] = np.nan"),
        ('amplification type column created per MEF channel', "T[C + ' Amp. Type'] = ''"),
        ('voltage of the gated beads in that channel', "T.at[R, C + ' Detector Volt.'] = BS[R].detector_voltage(C)"),
        ('Log iff the channel has decades', "AT = 'Log' if BS[R].amplification_type(C)[0] else 'Linear'"),
        ('amplification type written', "T.at[R, C + ' Amp. Type'] = AT"),
    ], ['T', 'C', 'R', 'BS', 'AT'], fixed={'T': w.params[0], 'BS': w.params[1]})


def about_and_cli(cx):
    """The About sheet and the command line wrapper: fixed rows first, then the caller's extra rows in
    their order; one column `Value`, index `Keyword`; every command line option reaches run() under its name."""
    fn = Fn(cx, 'excel_ui.generate_about_table')
    inventory(fn, 'TABLE', [
        ('fixed rows: version, date, time (keywords)', "KW = ['FlowCal version', 'Date of analysis', 'Time of analysis']"),
        ('fixed rows (values)', "VL = [FlowCal.__version__, time.strftime('%Y/%m/%d'), time.strftime('%I:%M:%S%p')]"),
        ('extra rows in the caller\'s order', 'for K, V in six.iteritems(extra_info):'),
        ('... keyword', 'KW.append(K)'),
        ('... value', 'VL.append(V)'),
        ('one row per keyword', 'AT = pd.DataFrame(VL, index=KW)'),
        ('single column Value', "AT.columns = ['Value']"),
        ('index named Keyword', "AT.index.name = 'Keyword'"),
        ('the table is returned', 'return AT'),
    ], ['KW', 'VL', 'K', 'V', 'AT'])
    fn2 = Fn(cx, 'excel_ui.run_command_line')
    calls = fn2.calls('run')
    ok = len(calls) == 1
    if ok:
        c = calls[0]
        want = {'input_path': 'inputpath', 'output_path': 'outputpath', 'verbose': 'verbose', 'plot': 'plot', 'hist_sheet': 'histogram_sheet'}
        # arguments bound by keyword or, through run()'s own parameter list, by position
        bound = {p_: kwarg(c, p_) for p_ in want}
        got = {p_: sym.show(sym.norm(v_)) for p_, v_ in bound.items() if v_ is not None}
        A = None
        for v_ in bound.values():
            if isinstance(v_, ast.Attribute) and isinstance(v_.value, ast.Name):
                A = v_.value.id
        ok = len(c.args) + len(c.keywords) == len(want) and got == {k: sym.show(sym.norm('%s.%s' % (A, v))) for k, v in want.items()}
        # options declared
        flags = set()
        for a in fn2.calls():
            if isinstance(a.func, ast.Attribute) and a.func.attr == 'add_argument':
                flags |= {x.value for x in a.args if isinstance(x, ast.Constant)}
        ok = ok and {'--inputpath', '--outputpath', '--verbose', '--plot', '--histogram-sheet'} <= flags
    fn2.ob('SEQ', 'every command line option is declared and handed to run() under its own name', bool(ok), calls[0] if calls else fn2.ast,
           key='cli')
    if calls:
        fn2.ctx_ob('SEQ', 'run() is called unconditionally', fn2.cfg.stmt_of(calls[0]))
    return fn


def empty_table(cx, qual):
    """EMPTY: an empty table yields an empty result of the same form as a processed one: under
    `<table>.empty` the function returns, for each remaining condition (full_output or not), the very
    expression it returns at its end; the returned containers are created before the test and nothing is
    put into them in between."""
    from ..rules import run_context
    fn = Fn(cx, qual)
    tbl = fn.params[0]
    lit = 'when ' + sym.show(sym.norm('%s.empty' % tbl))
    nlit = 'unless ' + sym.show(sym.norm('%s.empty' % tbl))
    E, N = {}, {}
    for r in fn.walk(None, into_nested=False):
        if not isinstance(r, ast.Return):
            continue
        c = run_context(fn, r, None, resolved=False) or []
        v = sym.show(sym.norm(r.value)) if r.value is not None else 'None'
        rest = ' & '.join(x for x in c if x not in (lit, nlit)) or 'always'
        if lit in c:
            E[rest] = (v, r)
        elif nlit in c:
            N[rest] = (v, r)
    ok = bool(E) and {k: v[0] for k, v in E.items()} == {k: v[0] for k, v in N.items()}
    site = list(E.values())[0][1] if E else fn.ast
    fn.ob('EMPTY', 'an empty table returns what a processed table returns, case by case', ok, site,
          detail='' if ok else 'empty table: %s; otherwise: %s' % ({k: v[0] for k, v in E.items()}, {k: v[0] for k, v in N.items()}),
          key='empty-returns')
    return fn


def beads_stats_table(cx):
    """Beads sheet: detector voltage, amplifier type and the fitted model of each calibrated channel; the model
    columns of a channel come from the entries at the position of THAT channel among the calibrated channels of
    the row (and stay empty when the channel was not calibrated)."""
    fn = Fn(cx, 'excel_ui.add_beads_stats')
    tbl, smp, mo = fn.params[0], fn.params[1], fn.params[2]
    items = [
        ('columns are filled only where MEF values are given', 'if pd.notnull(%s[H][R]):' % tbl),
        ('detector voltage of the beads sample for the channel', "%s.at[R, C + ' Detector Volt.'] = %s[R].detector_voltage(C)" % (tbl, smp)),
        ('amplifier type: Log iff the number of decades is non-zero', "AT = 'Log' if %s[R].amplification_type(C)[0] else 'Linear'" % smp),
        ('amplifier type column', "%s.at[R, C + ' Amp. Type'] = AT" % tbl),
        ('model columns only when calibration outputs are given', 'if %s:' % mo),
        ('position of the channel among the calibrated channels of the row', 'MI = %s[R].mef_channels.index(C)' % mo),
        ('model string of that position', "BMS = %s[R].fitting['beads_model_str'][MI]" % mo),
        ('model column', "%s.at[R, C + ' Beads Model'] = BMS" % tbl),
        ('parameter names of that position', "PN = %s[R].fitting['beads_params_names'][MI]" % mo),
        ('parameter names joined', "PNS = ', '.join([str(P1) for P1 in PN])"),
        ('parameter names column', "%s.at[R, C + ' Beads Params. Names'] = PNS" % tbl),
        ('parameter values of that position', "PV = %s[R].fitting['beads_params'][MI]" % mo),
        ('parameter values joined', "PVS = ', '.join([str(P2) for P2 in PV])"),
        ('parameter values column', "%s.at[R, C + ' Beads Params. Values'] = PVS" % tbl),
    ]
    metas = {m: m for m in ['H', 'R', 'C', 'AT', 'MI', 'BMS', 'PN', 'PNS', 'PV', 'PVS']}
    metas['P1'] = 'P'
    metas['P2'] = 'P'
    inventory(fn, 'TABLE', items, metas)
    return fn
