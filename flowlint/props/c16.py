"""C16 - truncated or inconsistent FCS files fail loudly instead of yielding other data."""
from . import io_segments as S


def run(cx):
    S.size_checks(cx)
    S.short_reads(cx)
    S.required_keywords(cx)
    S.layout_refusals(cx)
    S.decode_callargs(cx)
    S.decode_inventory(cx)     # shape from $TOT x $PAR as given (no clamping), widths, masks
    S.header_fields(cx)
    S.propagation(cx)
    S.tokenizer(cx)        # the odd-count refusal and the padding rule of TEXT-like segments (shared with C14)
    cx.decided += [
        'each of the three np.memmap calls maps the file object itself (bounded by the real file size), read-only, at the DATA begin offset, with the shape that the dominating size check compared against (end+1-begin | end-begin)',
        'the three size checks are alike',
        'TEXT-like segments: the read asks for the full declared length and a shorter result (beyond the one-byte convention) is refused before anything looks at the bytes',
        'layout keywords ($PAR, $TOT, $PnB, $PnR, $MODE, $DATATYPE, $BYTEORD, $NEXTDATA, segment offsets) are read with raising lookups and raising int()/float()',
        'HEADER offsets are parsed by raising int() in the documented order',
        'no HEADER / TEXT / supplemental TEXT / DATA read sits in a try with a handler (only ANALYSIS is tolerant): their errors end the load',
    ]
    cx.not_decided += ['what np.memmap does on a short file (trusted: raises)', 'values after a consistent-but-wrong $TOT x $PAR factorisation',
                       'a HEADER cut inside a numeric field that still parses as a shorter number (argued in DESIGN.md: the following reads fail)']
