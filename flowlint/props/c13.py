"""C13 - no call changes its inputs, and results share no state with them.

MUT: flow-sensitive interprocedural may-alias effect analysis over every public function and
sample method of io, transform, gate, stats, mef, plot (enumerated on every run).
FRESH: results of transformations and gates share nothing with their inputs; indexing shares at
most the event buffer.  ATTRSET: derived arrays get deep-copied metadata."""
import ast

from ..core import AnalysisError, norm_stmt
from .. import mut
from ..mut import F
from . import fcsdata_rules as R

SCOPE = ['io', 'transform', 'gate', 'stats', 'mef', 'plot']
EXEMPT = {
    '__init__': 'constructor: initialises self',
    '__new__': 'constructor: builds the new object',
    '__array_finalize__': 'NumPy construction hook: initialises self from its parent',
    '__setstate__': 'unpickling: initialises self',
    '__setitem__': 'the documented write path (C04)',
}


def in_scope(prog, q):
    m = q.split('.')[0]
    if m not in SCOPE:
        return False
    parts = q.split('.')[1:]
    if len(parts) == 1:
        return not parts[0].startswith('_')
    cls, meth = parts
    if cls.startswith('_'):
        return False
    if meth in EXEMPT:
        return False
    return not meth.startswith('_') or (meth.startswith('__') and meth.endswith('__'))


def run(cx):
    prog = mut.Program(cx.repo).solve()
    cx.count('functions_in_program', len(prog.funcs))
    cx.count('fixpoint_rounds', prog.rounds)
    cx.count('call_sites_resolved', prog.resolved)
    cx.count('call_sites_assumed_pure', prog.unresolved)
    if prog.rounds >= 8:
        # summaries keep growing: report, but the last round's events are still sound over-approximations
        cx.note('summary fixpoint not reached in 8 rounds (results are from the last round)')
    n_scope = 0
    by_mod = {}
    for q in sorted(prog.funcs):
        if not in_scope(prog, q):
            continue
        n_scope += 1
        by_mod[q.split('.')[0]] = by_mod.get(q.split('.')[0], 0) + 1
        mod, f, cls = prog.funcs[q]
        cx.functions_analysed.add(q)
        cx.consulted.add(mod.name)
        evs = prog.events.get(q, [])
        seen = set()
        for ev in evs:
            kinds = []
            for t in ev.tags:
                if t.startswith('P:self'):
                    kinds.append('the state of self')
                elif t.startswith('P:'):
                    kinds.append('the caller\'s `%s`%s' % (t[2:].rstrip('*'), ' (something it refers to)' if t.endswith('*') else ''))
                elif t.startswith('G:'):
                    kinds.append('module-level object `%s` (state shared between calls)' % t[2:])
            key = 'effect|' + norm_stmt(ev.node)[:120]
            if key in seen:
                continue
            seen.add(key)
            cx.ob('MUT', 'no store, in-place operation, mutator call or mutating callee reaches an object owned by the caller, the state of self or module state',
                  False, mod, ev.node, q, detail='%s changes %s' % (ev.what, ', '.join(sorted(set(kinds)))), key=key)
        if not evs:
            cx.ob('MUT', 'no store, in-place operation, mutator call or mutating callee reaches an object owned by the caller, the state of self or module state',
                  True, mod, f, q, key='clean')
    cx.floor('MUT', n_scope, 60, 'public functions and sample methods')
    cx.tables['public surface per module'] = by_mod
    cx.tables['exempt methods'] = EXEMPT
    cx.tables['container mutators'] = sorted(mut.CONTAINER_MUTATORS)
    cx.tables['array mutators'] = sorted(mut.ARRAY_MUTATORS)
    cx.tables['in-place library calls'] = sorted(mut.INPLACE_NP_FUNCS)
    cx.tables['aliasing library calls'] = sorted(mut.ALIAS_FUNCS)
    cx.tables['overwrite keywords'] = list(mut.OVERWRITE_KWARGS)
    cx.tables['view methods'] = sorted(mut.VIEW_METHODS)
    # mutable default arguments must never be returned
    for q in sorted(prog.funcs):
        if not in_scope(prog, q):
            continue
        mod, f, cls = prog.funcs[q]
        a = f.args
        pos = a.posonlyargs + a.args
        defaults = [None] * (len(pos) - len(a.defaults)) + list(a.defaults)
        for p, d in zip(pos, defaults):
            if isinstance(d, (ast.List, ast.Dict, ast.Set)):
                ret = prog.summaries[q].ret
                shared = ret is not None and ('P:' + p.arg) in (ret.own | ret.buf)
                cx.ob('MUT', 'a mutable default argument is neither mutated (above) nor handed out', not shared, mod, d, q,
                      detail='' if not shared else 'default of `%s` is returned' % p.arg, key='default|' + p.arg)
    # FRESH
    def fresh_av(v):
        return v.own <= mut.FS and v.buf <= mut.FS and v.inner <= mut.FS

    for q in ('transform.transform', 'transform.to_rfi', 'transform.to_mef'):
        mod, f, cls = prog.funcs[q]
        for st, v in prog.returns.get(q, []):
            ok = fresh_av(v)
            cx.ob('FRESH', 'a converted sample shares nothing (events or metadata) with the sample it was made from', ok, mod, st, q,
                  detail='' if ok else 'result may share %s' % sorted((v.own | v.buf | v.inner) - mut.FS), key='fresh|' + norm_stmt(st))
    for q in ('gate.start_end', 'gate.high_low', 'gate.ellipse', 'gate.density2d'):
        mod, f, cls = prog.funcs[q]
        n = 0
        for st, v in prog.returns.get(q, []):
            g = v.fields.get(('.', 'gated_data')) if v.fields and ('.', 'gated_data') in v.fields else v
            ok = fresh_av(g)
            n += 1
            cx.ob('FRESH', 'a gated sample shares nothing (events or metadata) with the sample it was made from', ok, mod, st, q,
                  detail='' if ok else 'gated data may share %s with the input' % sorted((g.own | g.buf | g.inner) - mut.FS),
                  key='fresh|' + norm_stmt(st))
        cx.need(n >= 2, '%s: returns not seen by the effect analysis' % q)
    q = 'io.FCSData.__getitem__'
    mod, f, cls = prog.funcs[q]
    for st, v in prog.returns.get(q, []):
        ok = v.own <= mut.FS and v.inner <= mut.FS
        cx.ob('FRESH', 'a sliced or viewed sample shares at most the event buffer, never metadata', ok, mod, st, q,
              detail='' if ok else 'result may share %s' % sorted((v.own | v.inner) - mut.FS), key='fresh|' + norm_stmt(st))
    # the calibration's result keeps no list of the caller's (the effect analysis cannot tell the copy from the wrapped single
    # channel: both carry the argument's label; the definitions reaching the bound list decide)
    from . import mef_rules
    mef_rules.own_channel_list(cx, rule='FRESH')
    cx.floor('FRESH', cx.rules.get('FRESH', 0), 12, 'result freshness obligations')
    # derived arrays get fresh metadata (premise of the array-kind rule)
    R.attrset(cx)
    cx.decided += [
        'for each of the public functions and sample methods enumerated from io, transform, gate, stats, mef, plot: no store, in-place operator, mutator call, out= argument, in-place library call or mutating callee (through summaries iterated to a fixpoint) reaches an object owned by the caller, the internal state of self, or module-level state',
        'mutable default arguments are neither mutated nor returned',
        'results of transform/to_rfi/to_mef and the gated data of all four gates carry only fresh origins (events and metadata); FCSData.__getitem__ shares at most the buffer',
        '__array_finalize__ deep-copies every attribute that is not immutable, so every derived array has its own metadata',
    ]
    cx.not_decided += ['effects on matplotlib\'s global figure state (outside "objects handed to it")',
                       'effects inside third-party calls and inside callables passed by the caller (assumed pure; counted as call_sites_assumed_pure)']
    cx.assumptions += ['third-party functions not listed in the alias/in-place tables return fresh objects and do not mutate their arguments',
                       'callables supplied by the caller (transform_fxn, clustering_fxn, statistic_fxn, ...) are pure']
