"""C03 - RFI conversion applies exactly the amplifier law of each selected channel."""
from . import transform_rules as T
from . import io_rules


def run(cx):
    T.to_rfi_all(cx, want=('SIB', 'FORMULA', 'NULLDEFAULT', 'WRITESET', 'PAIR'))
    io_rules.amplification_type_parsing(cx)
    from . import c17
    c17.recorded_settings(cx)
    cx.decided += [
        'the log law has the normal form a1*10**(a0*x/r), the linear law x/g, selected on a0 == 0',
        'the three setting lists are normalised alike: None -> per-channel None, other length refused (ValueError)',
        'explicit settings win; the sample\'s own setting of the same channel only under `is None`; gain falls back to 1',
        'channel list and setting lists are paired in the caller\'s order (no re-ordering/de-duplication before zip)',
        'all stores go to a fresh float copy, only at the loop channel; the copy is returned',
        '$PnE parsing: two comma separated floats, offset 0 of a log amplifier read as 1',
        'the recorded gain is $PnG (CytekPnnG of FlowJo Collector\'s Edition files only when $PnG is absent), the resolution is int($PnR), each kept per channel in channel order',
    ]
    cx.not_decided += ['floating-point evaluation of the law (rounding)']
    cx.assumptions += ['_name_to_index is order preserving (C04)', 'ndarray.copy/astype return fresh arrays']
