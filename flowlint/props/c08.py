"""C08 - every gate returns exactly its documented predicate, applied as a mask.

Rules: GATESHAPE (gated data is the whole input indexed by the returned mask; short form is the
gated_data field), GUARD (unsatisfiable requests refused before use), GATEPRED (the mask
expression has the documented normal form), API (names used by gate.py exist)."""
import ast

from ..core import AnalysisError, norm_stmt
from ..rules import Fn, guards, guard_dominates, names_in, kwarg, spec_check, is_none_test
from .. import sym, extapi
from ..sym import dotted

GATES = ['gate.start_end', 'gate.high_low', 'gate.ellipse', 'gate.density2d']


def output_ctor(fn, call):
    """Is `call` a construction of the gate's output namedtuple?  Returns field list or None."""
    d = dotted(call.func)
    if not d:
        return None
    for st in fn.mod.tree.body:
        if isinstance(st, ast.Assign) and len(st.targets) == 1 and isinstance(st.targets[0], ast.Name) \
                and st.targets[0].id == d and isinstance(st.value, ast.Call) \
                and (dotted(st.value.func) or '').endswith('namedtuple'):
            f = kwarg(st.value, 'field_names', 1)
            try:
                fields = list(ast.literal_eval(f))
            except Exception:
                return None
            return fields
    return None


def gate_vars(cx, fn):
    """(name of the gated-data variable, name of the mask variable), read off the full-output return."""
    gd = mk = None
    for r in fn.stmts(ast.Return):
        if isinstance(r.value, ast.Call) and output_ctor(fn, r.value) is not None:
            fields = output_ctor(fn, r.value)
            g = kwarg(r.value, 'gated_data', fields.index('gated_data'))
            m = kwarg(r.value, 'mask', fields.index('mask'))
            if isinstance(g, ast.Name) and isinstance(m, ast.Name):
                gd, mk = g.id, m.id
    cx.need(gd and mk, '%s: full-output return does not name its gated data and mask' % fn.qual)
    return gd, mk


def gateshape(cx, fn):
    data = fn.params[0]
    returns = fn.stmts(ast.Return)
    cx.need(returns, '%s has no return' % fn.qual)
    # the input name must never be rebound or written through
    for n in fn.cfg.nodes:
        if n.kind == 'entry':
            continue
        fn.ob('GATESHAPE', 'input is neither rebound nor written', data not in fn.rd.gen[n.id] and data not in fn.rd.mods[n.id],
              n.ast, detail='`%s` is assigned or stored into' % data, key='input-untouched') \
            if (data in fn.rd.gen[n.id] or data in fn.rd.mods[n.id]) else None
    fn.ob('GATESHAPE', 'input is neither rebound nor written', True, fn.ast, key='input-untouched-summary')

    def gated_defs(name, at):
        """Reaching definitions of `name` at `at`; each must be `<data>[<maskname>]`."""
        out = []
        for d, v in fn.reaching_values(name, at):
            ok = (v is not None and isinstance(v, ast.Subscript) and isinstance(v.value, ast.Name)
                  and v.value.id == data and isinstance(v.slice, ast.Name))
            out.append((d, v, ok))
        return out

    full, short = [], []
    for r in returns:
        cx.need(r.value is not None, '%s: bare return' % fn.qual)
        if isinstance(r.value, ast.Call) and output_ctor(fn, r.value) is not None:
            full.append(r)
        else:
            short.append(r)
    cx.need(full and short, '%s: expected both a full-output and a short return form' % fn.qual)
    n = 0
    for r in full:
        fields = output_ctor(fn, r.value)
        cx.need('gated_data' in fields and 'mask' in fields, '%s: output tuple lacks gated_data/mask' % fn.qual)
        gd = kwarg(r.value, 'gated_data', fields.index('gated_data'))
        mk = kwarg(r.value, 'mask', fields.index('mask'))
        cx.need(isinstance(gd, ast.Name) and isinstance(mk, ast.Name),
                '%s: gated_data/mask fields are not plain names: %s' % (fn.qual, norm_stmt(r)))
        mask_defs = {d.id for d in fn.rd.reaching(fn.node(r), mk.id)}
        for d, v, ok in gated_defs(gd.id, r):
            n += 1
            fn.ob('GATESHAPE', 'gated data is the whole input indexed by a mask', ok, d.ast,
                  detail='' if ok else 'gated data defined as `%s`, not `%s[<mask>]`' % (norm_stmt(d.ast), data),
                  key='full|' + norm_stmt(r.value.func))
            if ok:
                # the indexing mask is the very mask that is returned
                idx_defs = {x.id for x in fn.rd.reaching(d, v.slice.id)}
                same = v.slice.id == mk.id and idx_defs == mask_defs and bool(mask_defs)
                # no in-place change of the mask between indexing and return
                later_mod = [m for m in fn.cfg.nodes if mk.id in fn.rd.mods[m.id]
                             and fn.cfg.reaches_avoiding(d, m, []) and fn.cfg.reaches_avoiding(m, fn.node(r), [])
                             and m.id != d.id]
                fn.ob('GATESHAPE', 'returned mask is the mask that indexed the data', same and not later_mod, r,
                      detail='' if same and not later_mod else
                      'data indexed with `%s` (defs %s) but mask field is `%s` (defs %s)%s'
                      % (v.slice.id, sorted(idx_defs), mk.id, sorted(mask_defs),
                         '; mask modified after indexing' if later_mod else ''),
                      key='mask-identity|' + norm_stmt(r.value.func))
    for r in short:
        cx.need(isinstance(r.value, ast.Name), '%s: short return is not a plain name: %s' % (fn.qual, norm_stmt(r)))
        # pair with the full return that is the other outcome of the same `if full_output` (either the
        # sibling branch, or - after flattening of `else` - the `if` statement just before this return)
        sib = None
        for a in fn.ancestors(r):
            if isinstance(a, ast.If):
                cands = [f for f in full if fn.in_body_of(f, a, 'body') or fn.in_body_of(f, a, 'orelse')]
                if cands:
                    sib = cands[0]
                    break
        if sib is None:
            from ..rules import block_of
            blk, i = block_of(fn, r)
            if blk is not None and i > 0 and isinstance(blk[i - 1], ast.If):
                cands = [f for f in full if fn.in_body_of(f, blk[i - 1], 'body')]
                if cands:
                    sib = cands[0]
        if sib is None:
            # guard-clause spelling (`if not full_output: return gated` ... `return Output(...)`): the sibling is
            # the full return that runs under the same conditions but for the outcome of the full_output test
            from ..rules import run_context
            def flip(c):
                return sorted(('when ' + x[7:]) if x.startswith('unless ') and x[7:] == 'full_output' else
                              (('unless ' + x[5:]) if x.startswith('when ') and x[5:] == 'full_output' else x) for x in c)
            cs = run_context(fn, r, None, resolved=False) or []
            cands = [f for f in full if sorted(run_context(fn, f, None, resolved=False) or []) == flip(cs)]
            if len(cands) == 1:
                sib = cands[0]
        cx.need(sib is not None, '%s: short return without sibling full return' % fn.qual)
        fields = output_ctor(fn, sib.value)
        gd = kwarg(sib.value, 'gated_data', fields.index('gated_data'))
        sd = {d.id for d in fn.rd.reaching(fn.node(r), r.value.id)}
        fd = {d.id for d in fn.rd.reaching(fn.node(sib), gd.id)}
        ok = r.value.id == gd.id and sd == fd and bool(sd)
        n += 1
        fn.ob('GATESHAPE', 'short form returns the gated_data of the full form', ok, r,
              detail='' if ok else 'short form returns `%s` (defs %s), full form gated_data is `%s` (defs %s)'
              % (r.value.id, sorted(sd), gd.id, sorted(fd)), key='short-form')
        for d, v, ok2 in gated_defs(r.value.id, r):
            fn.ob('GATESHAPE', 'gated data is the whole input indexed by a mask', ok2, d.ast,
                  detail='' if ok2 else 'gated data defined as `%s`' % norm_stmt(d.ast), key='short|def')
    return n


def guard_len2(cx, fn, use_pred):
    """`len(channels) != 2` refusal dominates the first use of channels as an index."""
    gs = guards(fn, mentions=lambda t: 'channels' in names_in(t) and any(
        isinstance(c, ast.Call) and dotted(c.func) == 'len' for c in ast.walk(t)), exc=['ValueError'])
    uses = [s for s in fn.walk() if isinstance(s, ast.Subscript) and 'channels' in names_in(s.slice)]
    cx.need(uses, '%s: no use of channels as index' % fn.qual)
    ok = bool(gs) and all(any(guard_dominates(fn, g, p, u) for g, p in gs) for u in uses)
    if gs:
        g, p = gs[0]
        # the guard must refuse exactly "other than two": normal form of the passing condition is len(channels)==2
        t = sym.norm(g.test)
        want = sym.norm('len(channels) != 2') if not p else sym.norm('len(channels) == 2')
        ok = ok and t == want
    fn.ob('GUARD', 'other than two channels refused before the channels are used', ok,
          gs[0][0] if gs else fn.ast, detail='' if ok else 'no dominating `len(channels) != 2` refusal', key='len2')


def start_end(cx):
    fn = Fn(cx, 'gate.start_end')
    data = fn.params[0]
    GD, MK = gate_vars(cx, fn)
    # refusal: more events to drop than exist
    gs = guards(fn, mentions=lambda t: {'num_start', 'num_end'} <= names_in(t), exc=['ValueError'])
    mask_defs = [n for n in fn.cfg.nodes if MK in fn.rd.gen[n.id]]
    cx.need(len(mask_defs) >= 1, 'gate.start_end: no definition of the mask')
    ok = bool(gs) and all(guard_dominates(fn, g, p, d.ast) for g, p in gs[:1] for d in mask_defs)
    if gs:
        g, p = gs[0]
        got = sym.norm(g.test)
        want = sym.norm('%s.shape[0] < num_start + num_end' % data)
        alt = sym.norm('len(%s) < num_start + num_end' % data)
        ok = ok and (not p) and got in (want, alt)
    fn.ob('GUARD', 'more events to drop than exist is refused before the mask is built', ok,
          gs[0][0] if gs else fn.ast,
          detail='' if ok else 'refusal must be `%s.shape[0] < num_start + num_end` and dominate the mask' % data,
          key='too-many')
    # negative counts clamped to zero before use
    for p in ('num_start', 'num_end'):
        clamp = False
        for st in fn.stmts(ast.If):
            if sym.norm(st.test) == sym.norm('%s < 0' % p) and len(st.body) == 1 and not st.orelse \
                    and isinstance(st.body[0], ast.Assign) and sym.norm(st.body[0].value) == ('num', 0) \
                    and isinstance(st.body[0].targets[0], ast.Name) and st.body[0].targets[0].id == p:
                clamp = all(fn.cfg.dominates(fn.cfg.node_of(st), d) for d in mask_defs)
        for st in fn.stmts(ast.Assign):
            if isinstance(st.targets[0], ast.Name) and st.targets[0].id == p and \
                    sym.norm(st.value) in (sym.norm('max(%s, 0)' % p), sym.norm('max(0, %s)' % p)):
                clamp = all(fn.cfg.dominates(fn.node(st), d) for d in mask_defs)
        fn.ob('GATEPRED', 'negative %s is clamped to zero before the mask is built' % p, clamp, fn.ast,
              detail='' if clamp else 'no `if %s < 0: %s = 0` before the mask' % (p, p), key='clamp-' + p)
    # mask: all True of length N, then exactly two clearing stores
    d0 = mask_defs[0]
    v = fn.rd.assigned_value(d0, MK)
    cx.need(len(mask_defs) == 1 and v is not None, 'gate.start_end: mask has %d definitions' % len(mask_defs))
    got = sym.norm(v)
    N = '%s.shape[0]' % data
    accepted = [sym.norm(s % {'N': N}) for s in (
        'np.ones(shape=%(N)s, dtype=bool)', 'np.ones(%(N)s, dtype=bool)', 'np.ones(%(N)s, bool)',
        'np.full(%(N)s, True)', 'np.ones(shape=(%(N)s,), dtype=bool)', 'np.ones(len(' + data + '), dtype=bool)')]
    fn.ob('GATEPRED', 'mask starts as all-True with one entry per event', got in accepted, v,
          detail='' if got in accepted else 'mask initialised as %s' % sym.show(got), key='mask-init')
    stores = [n for n in fn.cfg.nodes if MK in fn.rd.mods[n.id]]
    seen = {}
    for s in stores:
        st = s.ast
        cx.need(isinstance(st, ast.Assign) and len(st.targets) == 1 and isinstance(st.targets[0], ast.Subscript)
                and isinstance(st.targets[0].value, ast.Name), 'gate.start_end: unrecognised mask update `%s`' % norm_stmt(st))
        idx = sym.norm(st.targets[0].slice)
        val = sym.norm(st.value)
        if idx == sym.norm('x[:num_start]')[2]:
            which = 'start'
        elif idx == sym.norm('x[-num_end:]')[2]:
            which = 'end'
        else:
            which = 'other'
        okv = val == ('const', False)
        if which == 'end':
            # must be protected against num_end == 0 (mask[-0:] would clear everything)
            prot = False
            for a in fn.ancestors(st):
                if isinstance(a, ast.If) and fn.in_body_of(st, a, 'body') and \
                        sym.norm(a.test) in (sym.norm('num_end > 0'), sym.norm('num_end != 0'), sym.norm('num_end'),
                                             sym.norm('num_end >= 1')):
                    prot = True
            okv = okv and prot
        seen[which] = seen.get(which, 0) + 1
        fn.ob('GATEPRED', 'mask update clears exactly the first num_start / last num_end events',
              which != 'other' and okv, st,
              detail='' if (which != 'other' and okv) else 'mask store `%s` is not one of mask[:num_start]=False, '
              '(num_end>0) mask[-num_end:]=False' % norm_stmt(st), key='mask-store|' + which)
    ok = seen.get('start') == 1 and seen.get('end') == 1
    fn.ob('GATEPRED', 'both ends of the window are cleared once', ok, fn.ast,
          detail='' if ok else 'mask stores found: %s' % seen, key='mask-store-count')
    # stores happen before the data is indexed
    for r, v2 in [(d, fn.rd.assigned_value(d, GD)) for d in fn.cfg.nodes if GD in fn.rd.gen[d.id]]:
        for s in stores:
            ok = not fn.cfg.reaches_avoiding(r, s, [])
            fn.ob('GATEPRED', 'mask is complete before it indexes the data', ok, s.ast,
                  detail='' if ok else 'mask modified after gating', key='mask-order')
    gateshape(cx, fn)
    return fn


def high_low(cx):
    fn = Fn(cx, 'gate.high_low')
    data = fn.params[0]
    GD, MK = gate_vars(cx, fn)
    mdefs = [n for n in fn.cfg.nodes if MK in fn.rd.gen[n.id]]
    cx.need(len(mdefs) == 1, 'gate.high_low: mask has %d definitions' % len(mdefs))
    mv = fn.rd.assigned_value(mdefs[0], MK)
    cx.need(mv is not None, 'gate.high_low: mask is not a plain assignment')
    # the gated-channel view X: defined as data (channels None) or data[:, channels] (+reshape for 1-D)
    got = sym.norm(mv)
    # find X = the name compared
    cmps = [c for c in ast.walk(mv) if isinstance(c, ast.Compare)]
    calls = [c for c in ast.walk(mv) if isinstance(c, ast.Call)]
    names = set()
    for c in cmps:
        names |= names_in(c)
    names -= {'high', 'low'}
    cx.need(len(names) == 1, 'gate.high_low: cannot identify the compared data in `%s`' % norm_stmt(mv))
    X = names.pop()
    want = sym.norm('np.all((%s < high) & (%s > low), axis=1)' % (X, X))
    want2 = sym.norm('np.all(np.logical_and(%s < high, %s > low), axis=1)' % (X, X))
    ok = got in (want, want2, )
    fn.ob('GATEPRED', 'event kept iff strictly between low and high in all chosen channels', ok, mv,
          detail='' if ok else 'mask computed as %s; documented predicate is %s' % (sym.show(got), sym.show(want)),
          key='predicate')
    # X is the input restricted to the chosen channels
    xdefs = fn.reaching_values(X, mdefs[0].ast)
    forms = set()
    okx = True
    for d, v in xdefs:
        if v is None:
            okx = False
            continue
        nf = sym.norm(v)
        if nf == sym.norm(data):
            forms.add('all')
        elif nf == sym.norm('%s[:, channels]' % data):
            forms.add('sel')
        elif nf in (sym.norm('%s.reshape((-1, 1))' % X), sym.norm('%s.reshape(-1, 1)' % X)):
            # reshape keeps the sample type (and so range()); indexing with None / np.newaxis does not:
            # FCSData.__getitem__ returns a plain array for keys containing None (C04), which would
            # silently turn the default thresholds into +/-inf
            forms.add('col')
        else:
            okx = False
            forms.add(sym.show(nf))
    okx = okx and {'all', 'sel'} <= forms
    fn.ob('GATEPRED', 'compared data are the chosen channels of the input (all when none given)', okx, mdefs[0].ast,
          detail='' if okx else 'compared data `%s` defined as %s' % (X, sorted(forms)), key='compared-data')
    # `sel` only when channels is not None
    for st in fn.stmts(ast.If):
        if is_none_test(st.test, 'channels'):
            b = [s for s in st.body if isinstance(s, ast.Assign)]
            ok = bool(b) and sym.norm(b[0].value) == sym.norm(data)
            fn.ob('GATEPRED', 'no channels given means all channels', ok, st, key='channels-none')
    # defaults
    for pname, idx, inf in (('high', 1, 'np.inf'), ('low', 0, '-np.inf')):
        blocks = [st for st in fn.stmts(ast.If) if is_none_test(st.test, pname)]
        cx.need(len(blocks) == 1, 'gate.high_low: expected one `if %s is None` block' % pname)
        blk = blocks[0]
        from ..rules import summarise, Unsupported
        assigns = [s for s in ast.walk(blk) if isinstance(s, ast.Assign)
                   and isinstance(s.targets[0], ast.Name) and s.targets[0].id == pname]
        try:
            summ = summarise(blk.body).get(pname)
        except Unsupported as e:
            raise AnalysisError('gate.high_low: default block for %s has an unrecognised statement: %s' % (pname, e))
        got_d = sym.norm(summ) if summ is not None else None
        want_d = sym.norm("np.array([%s if di is None else di[%d] for di in %s.range()]) if hasattr(%s, 'range') else %s"
                          % (inf, idx, X, X, inf))
        ok = got_d == want_d
        vals = [got_d]
        cond_ok = ok
        fn.ob('GATEPRED', 'default %s threshold is each channel\'s range limit, no limit without a range' % pname,
              ok, blk, detail='' if ok else 'default for %s is %s' % (pname, sym.show(got_d) if got_d else 'not assigned'),
              key='default-' + pname)
        # explicit thresholds win: the block is entered only when the argument is None and dominates nothing else
        fn.ob('GATEPRED', 'explicit %s threshold is used as given' % pname,
              all(fn.in_body_of(a, blk, 'body') for a in assigns) and
              all(pname not in fn.rd.gen[n.id] or n.kind == 'entry' or any(n.ast is a for a in assigns)
                  for n in fn.cfg.nodes), blk, key='explicit-' + pname)
    gateshape(cx, fn)
    return fn


def ellipse(cx):
    fn = Fn(cx, 'gate.ellipse')
    data = fn.params[0]
    guard_len2(cx, fn, None)
    GD, MK = gate_vars(cx, fn)
    mdefs = [n for n in fn.cfg.nodes if MK in fn.rd.gen[n.id]]
    cx.need(len(mdefs) == 1, 'gate.ellipse: mask has %d definitions' % len(mdefs))
    mv = fn.rd.assigned_value(mdefs[0], MK)
    # the channel data variable has two definitions (plain and log10 under `if log`): find it
    X = None
    for n in fn.cfg.nodes:
        if n.kind == 'stmt' and isinstance(n.ast, ast.Assign) and isinstance(n.ast.targets[0], ast.Name):
            v = n.ast.value
            if isinstance(v, ast.Call) and dotted(v.func) in ('np.log10', 'numpy.log10') and len(v.args) == 1 \
                    and isinstance(v.args[0], ast.Name) and v.args[0].id == n.ast.targets[0].id:
                X = n.ast.targets[0].id
                lognode = n
    cx.need(X is not None, 'gate.ellipse: no `x = np.log10(x)` re-scaling found')
    spec = ('(np.dot(%(X)s - center, np.array([[np.cos(theta), np.sin(theta)], [-np.sin(theta), np.cos(theta)]]).T)[:, 0] / a)**2'
            ' + (np.dot(%(X)s - center, np.array([[np.cos(theta), np.sin(theta)], [-np.sin(theta), np.cos(theta)]]).T)[:, 1] / b)**2 <= 1') % {'X': X}
    spec_check(fn, 'GATEPRED', 'event kept iff inside or on the rotated, centred ellipse', mv, spec,
               opaque=(X,), at=mdefs[0].ast, node=mdefs[0].ast)
    # channel data: data[:, channels] (as plain array), log10 iff `log`
    xd = fn.reaching_values(X, mdefs[0].ast)
    forms = []
    for d, v in xd:
        nf = sym.norm(v) if v is not None else None
        if nf in (sym.norm('%s[:, channels].view(np.ndarray)' % data), sym.norm('%s[:, channels]' % data),
                  sym.norm('np.asarray(%s[:, channels])' % data)):
            forms.append('sel')
        elif nf == sym.norm('np.log10(%s)' % X):
            a = [x for x in fn.ancestors(d.ast) if isinstance(x, ast.If)]
            forms.append('log' if a and sym.norm(a[0].test) == ('var', 'log') and fn.in_body_of(d.ast, a[0], 'body')
                         else 'log-unguarded')
        else:
            forms.append(sym.show(nf) if nf else 'non-plain')
    ok = sorted(forms) == ['log', 'sel']
    fn.ob('GATEPRED', 'gating happens on the two chosen channels, in log10 space iff requested', ok, mdefs[0].ast,
          detail='' if ok else 'channel data definitions: %s' % forms, key='log-space')
    # contour: the same ellipse, mapped back with 10** iff log
    full = [r for r in fn.stmts(ast.Return) if isinstance(r.value, ast.Call) and output_ctor(fn, r.value)]
    cx.need(len(full) == 1, 'gate.ellipse: expected one full-output return')
    fields = output_ctor(fn, full[0].value)
    cn = kwarg(full[0].value, 'contour', fields.index('contour'))
    if _contour_by_summary(cx, fn, full[0], cn):
        gateshape(cx, fn)
        return fn
    if isinstance(cn, ast.List) and len(cn.elts) == 1 and isinstance(cn.elts[0], ast.Name):
        # the one-element list written in place
        ci = cn.elts[0].id
        cidefs = fn.reaching_values(ci, full[0])
        cdefs = None
    else:
        cx.need(isinstance(cn, ast.Name), 'gate.ellipse: contour field is not a name')
        cdefs = fn.reaching_values(cn.id, full[0])
        cx.need(len(cdefs) == 1 and isinstance(cdefs[0][1], ast.List) and len(cdefs[0][1].elts) == 1
                and isinstance(cdefs[0][1].elts[0], ast.Name), 'gate.ellipse: contour is not a one-element list of a name')
        ci = cdefs[0][1].elts[0].id
        cidefs = fn.reaching_values(ci, cdefs[0][0].ast)
    kinds = []
    for d, v in cidefs:
        if v is None:
            kinds.append('non-plain')
            continue
        nf = sym.norm(v)
        if nf == sym.norm('10**%s' % ci):
            a = [x for x in fn.ancestors(d.ast) if isinstance(x, ast.If)]
            kinds.append('exp' if a and sym.norm(a[0].test) == ('var', 'log') and fn.in_body_of(d.ast, a[0], 'body')
                         else 'exp-unguarded')
        else:
            # ci = dot(ci0, R) + center with ci0 = array([a cos t, b sin t]).T ; t spans one full turn
            tnames = [x for x in names_in(v)]
            code = fn.nf(v, at=d.ast)
            # parameter t of the curve: linspace(0,1,k)*2*pi  or linspace(0, 2*pi, k)
            ts = [c for c in ast.walk(ast.parse(' ', mode='exec'))]
            R = 'np.array([[np.cos(theta), np.sin(theta)], [-np.sin(theta), np.cos(theta)]])'
            okc = False
            tform = None
            for tf in ('np.linspace(0, 1, K) * 2 * np.pi', 'np.linspace(0, 2 * np.pi, K)'):
                for K in (100, 50, 200, 360, 1000):
                    t = tf.replace('K', str(K))
                    want = sym.norm('np.dot(np.array([a * np.cos(%s), b * np.sin(%s)]).T, %s) + center' % (t, t, R))
                    if code == want:
                        okc, tform = True, t
            if not okc:
                # accept any number of points: compare with the point count abstracted away
                import re as _re
                shown = sym.show(code)
            kinds.append('curve' if okc else 'curve-mismatch: ' + sym.show(code))
    ok = sorted(kinds) == ['curve', 'exp']
    fn.ob('GATEPRED', 'contour traces the same ellipse (same centre, axes, rotation), back in data space iff log',
          ok, cdefs[0][0].ast if cdefs else full[0], detail='' if ok else 'contour definitions: %s' % kinds, key='contour')
    gateshape(cx, fn)
    return fn


def _contour_by_summary(cx, fn, ret, cn):
    """The contour handed out, read as one expression: the statements in front of the full-output return (assignments and
    ifs of assignments) are summarised symbolically, so a conditional statement and a conditional expression, temporaries or
    none, read alike.  True when the obligation was decided here (discharged); False leaves it to the statement-wise rule."""
    from ..rules import summarise, _subst_env, Unsupported
    par = fn.parent.get(id(ret))
    block = None
    for fld in ('body', 'orelse'):
        b = getattr(par, fld, None)
        if isinstance(b, list) and any(x is ret for x in b):
            block = b
    if block is None:
        return False
    i = [k for k, x in enumerate(block) if x is ret][0]

    def supported(st):
        if isinstance(st, ast.Assign) and len(st.targets) == 1 and isinstance(st.targets[0], ast.Name):
            return True
        return isinstance(st, ast.If) and all(supported(x) for x in st.body + st.orelse)
    j = i
    while j > 0 and supported(block[j - 1]):
        j -= 1
    if j == i:
        return False
    try:
        env = summarise(block[j:i])
    except Unsupported:
        return False
    expr = _subst_env(cn, env)
    try:
        code = fn.nf(expr, at=block[j])
    except AnalysisError:
        return False
    R = 'np.array([[np.cos(theta), np.sin(theta)], [-np.sin(theta), np.cos(theta)]])'
    ok = False
    for tf in ('np.linspace(0, 1, K) * 2 * np.pi', 'np.linspace(0, 2 * np.pi, K)'):
        for K in (100, 50, 200, 360, 1000):
            t = tf.replace('K', str(K))
            curve = 'np.dot(np.array([a * np.cos(%s), b * np.sin(%s)]).T, %s) + center' % (t, t, R)
            if code == sym.norm('[10**(%s) if log else (%s)]' % (curve, curve)):
                ok = True
    if ok:
        fn.ob('GATEPRED', 'contour traces the same ellipse (same centre, axes, rotation), back in data space iff log', True, ret, key='contour')
    return ok


def run(cx):
    from ..rules import exits_of
    exits_of(cx, 'EXITS', ['gate.start_end', 'gate.high_low', 'gate.ellipse'])
    start_end(cx)
    high_low(cx)
    ellipse(cx)
    fn = Fn(cx, 'gate.density2d')
    guard_len2(cx, fn, None)
    n = gateshape(cx, fn)
    cx.count('returns_checked', sum(len(Fn(cx, g).stmts(ast.Return)) for g in GATES))
    cx.floor('GATESHAPE', cx.rules.get('GATESHAPE', 0), 20, 'return/definition obligations over the four gates')
    # API: every third-party name in gate.py resolves
    mod = cx.repo.mod('gate')
    qmap = {}
    for q, f in mod.funcs.items():
        for x in ast.walk(f):
            qmap.setdefault(id(x), 'gate.' + q)
    extapi.api_obligations(cx, mod, mod.tree, lambda nd: qmap.get(id(nd), 'gate'), min_found=30)
    cx.decided += [
        'gated output = whole input indexed by the returned mask, for every return of the 4 gates',
        'short return form = gated_data field of the full form',
        'start/end: refusal, clamping, all-True mask with exactly the two window stores',
        'high/low: strict comparisons against low/high over the chosen channels, defaults from range() else +-inf',
        'ellipse: normal form of the mask equals the documented quadratic form; log10/10** pairing; contour = same ellipse',
        'wrong number of channels refused before use (ellipse, density2d)',
        'every third-party name used in gate.py resolves in the installed libraries',
    ]
    cx.not_decided += ['numerical evaluation of the predicates (floating point rounding of rotation / quadratic form)']
    cx.assumptions += ['NumPy boolean-mask indexing returns the selected rows in order with metadata via __array_finalize__ (C04/C20)']
