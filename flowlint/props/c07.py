"""C07 - ranges follow the data through unit changes, so saturation gating commutes."""
from . import transform_rules as T
from . import c08


def run(cx):
    # premise of "replace the range entry of the copy": the copy owns its range lists
    from . import fcsdata_rules as R
    R.attrset(cx)
    T.to_rfi_all(cx, want=('FORMULA', 'SAMELAW', 'WRITESET', 'SCALARPATH'))
    T.to_mef_all(cx, want=('SAMELAW', 'WRITESET', 'SCALARPATH'))
    T.transform_all(cx)
    c08.high_low(cx)
    # the stored limits are written by the conversions only (on their own copy): no sample method, statistic,
    # gate or plot function stores into the sample it is given (effect analysis shared with C13)
    from . import c13
    from .. import mut
    from ..core import norm_stmt
    prog = mut.Program(cx.repo).solve()
    n = 0
    for q in sorted(prog.funcs):
        if not c13.in_scope(prog, q) or q.split('.')[0] not in ('io', 'gate', 'stats', 'plot'):
            continue
        mod, f, cls = prog.funcs[q]
        n += 1
        cx.functions_analysed.add(q)
        evs = [ev for ev in prog.events.get(q, []) if any(t.startswith('P:') for t in ev.tags)]
        seen = set()
        for ev in evs:
            k = norm_stmt(ev.node)[:100]
            if k in seen:
                continue
            seen.add(k)
            cx.ob('RANGEWRITE', 'a sample (and with it its stored range limits) is not written by anything but the conversions on their own copy',
                  False, mod, ev.node, q, detail='%s may reach %s' % (ev.what, ', '.join(sorted(t for t in ev.tags if t.startswith('P:')))),
                  key='write|' + k)
        if not evs:
            cx.ob('RANGEWRITE', 'a sample (and with it its stored range limits) is not written by anything but the conversions on their own copy',
                  True, mod, f, q, key='clean')
    cx.floor('RANGEWRITE', n, 40, 'sample methods, gates, statistics and plot functions')
    cx.decided += [
        'derived samples own their range lists (__array_finalize__ deep-copies every attribute that is not immutable), so converting a copy cannot move the source\'s limits',
        'in transform, to_rfi and to_mef the range limits of a converted channel are pushed through the very callable applied to its events',
        'ranges of other channels are never stored to',
        'no sample method (hist_bins, range, ...), gate, statistic or plot function stores into its argument: the stored limits change only through the conversions',
        'the high/low gate reads its default thresholds from range() of the gated channels and compares strictly',
    ]
    cx.decided += ['SCALARPATH: whether limits and events take the same numeric route - they do not for the log law of to_rfi and for the curves of to_mef (recorded as known findings with failing inputs); the linear law x/g is exactly rounded on both routes']
    cx.not_decided += ['transform(): the limits are handed to the caller\'s function as a two-element list; which route it takes depends on that function',
                       'that the pipeline order convert-then-gate is used (C10)']
