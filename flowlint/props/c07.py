"""C07 - ranges follow the data through unit changes, so saturation gating commutes."""
from . import transform_rules as T
from . import c08


def run(cx):
    # premise of "replace the range entry of the copy": the copy owns its range lists
    from . import fcsdata_rules as R
    R.attrset(cx)
    T.to_rfi_all(cx, want=('FORMULA', 'SAMELAW', 'WRITESET', 'SCALARPATH'))
    T.to_mef_all(cx, want=('SAMELAW', 'WRITESET', 'SCALARPATH'))
    T.transform_all(cx)
    c08.high_low(cx)
    cx.decided += [
        'derived samples own their range lists (__array_finalize__ deep-copies every attribute that is not immutable), so converting a copy cannot move the source\'s limits',
        'in transform, to_rfi and to_mef the range limits of a converted channel are pushed through the very callable applied to its events',
        'ranges of other channels are never stored to',
        'the high/low gate reads its default thresholds from range() of the gated channels and compares strictly',
    ]
    cx.decided += ['SCALARPATH: whether limits and events take the same numeric route - they do not for the log law of to_rfi and for the curves of to_mef (recorded as known findings with failing inputs); the linear law x/g is exactly rounded on both routes']
    cx.not_decided += ['transform(): the limits are handed to the caller\'s function as a two-element list; which route it takes depends on that function',
                       'that the pipeline order convert-then-gate is used (C10)']
