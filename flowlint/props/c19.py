"""C19 - histogram bin edges are increasing, complete and centred on channel values."""
import ast

from ..core import AnalysisError, norm_stmt
from ..rules import (Fn, names_in, kwarg, is_none_test, spec_check, subscript_stores, always_raises,
                     raised_types, once_per_iteration)
from ..cfg import target_names
from .. import sym
from ..sym import dotted
from .mef_rules import appends


def scale_chain(cx, fn, loop, var):
    """The if/elif chain on `var == '<scale>'`; returns ({scale: body}, else_body, first If)."""
    for st in loop.body:
        if isinstance(st, ast.If):
            chain, cur, branches = st, st, {}
            ok = True
            while True:
                t = cur.test
                if isinstance(t, ast.Compare) and len(t.ops) == 1 and isinstance(t.ops[0], ast.Eq) \
                        and isinstance(t.left, ast.Name) and t.left.id == var \
                        and isinstance(t.comparators[0], ast.Constant):
                    branches[t.comparators[0].value] = cur.body
                else:
                    ok = False
                    break
                if len(cur.orelse) == 1 and isinstance(cur.orelse[0], ast.If):
                    cur = cur.orelse[0]
                    continue
                return branches, cur.orelse, chain
            if not ok:
                continue
    raise AnalysisError('%s: no if/elif chain on the per-channel scale' % fn.qual)


def run(cx):
    from ..rules import exits_of
    exits_of(cx, 'EXITS', ['io.FCSData.hist_bins', 'plot._LogicleTransform.__init__'])
    fn = Fn(cx, 'io.FCSData.hist_bins')
    loops = [f for f in fn.stmts(ast.For) if isinstance(f.iter, ast.Call) and dotted(f.iter.func) == 'zip'
             and len(f.iter.args) == 3]
    cx.need(len(loops) == 1, 'hist_bins: expected one loop over zip(channels, nbins, scale)')
    loop = loops[0]
    ch, nb, sc = [t.id for t in loop.target.elts]
    zargs = [dotted(a) for a in loop.iter.args]
    # what the loop iterates over, as a function of the arguments: symbolic summary of the statements before the
    # loop (spelling-independent: if-statement or conditional expression, extra locals), compared with the summary
    # of the documented prelude
    from ..rules import summarise, Unsupported
    chl = zargs[0]
    pre = []
    for st in fn.ast.body:
        if st is loop:
            break
        pre.append(st)
    DOC = sym.parse_block(
        "if channels is None:\n    channels = list(self._channels)\n"
        "channels = self._name_to_index(channels)\n"
        "CL = channels\n"
        "if not isinstance(CL, list):\n    CL = [CL]\n"
        "if not isinstance(nbins, list):\n    nbins = [nbins]*len(CL)\n"
        "if not isinstance(scale, list):\n    scale = [scale]*len(CL)\n")
    try:
        got_env = summarise([s_ for s_ in pre if not (isinstance(s_, ast.Assign) and isinstance(s_.value, ast.List) and not s_.value.elts)])
    except Unsupported as e:
        raise AnalysisError('hist_bins: statement before the loop not understood: %s' % e)
    want_env = summarise(DOC)
    for what, zname, wname in (('channel list: all channels when none is given, translated to positions, a single channel wrapped into a list', zargs[0], 'CL'),
                               ('bin counts: a single value applies to every requested channel', zargs[1], 'nbins'),
                               ('scales: a single value applies to every requested channel', zargs[2], 'scale')):
        g_ = got_env.get(zname)
        ok = g_ is not None and sym.Normalizer().n(g_) == sym.Normalizer().n(want_env[wname])
        fn.ob('ONCE', what, ok, loop, detail='' if ok else 'the loop iterates over %s' % (sym.show(sym.Normalizer().n(g_)) if g_ is not None else zname),
              key='prelude-' + wname)
    ch_after = got_env.get('channels')
    # one result per channel; unwrapped iff the request was not a list
    ap = appends(fn, loop)
    cx.need(len(ap) == 1, 'hist_bins: expected one accumulator in the loop, found %s' % sorted(ap))
    acc = list(ap)[0]
    sts = ap[acc]
    ok = len(sts) == 1
    why = ''
    if ok:
        ok, why = once_per_iteration(fn, loop, sts[0])
    fn.ob('ONCE', 'exactly one edge array is produced per requested channel, in order', ok, sts[0], detail=why, key='once')
    res_var = dotted(sts[0].value.args[0])
    cx.need(res_var, 'hist_bins: appended value is not a name')
    # what is returned: the list itself for a list request, its only element otherwise (either as an if-statement
    # before one return or as two returns)
    tail = []
    seen_loop = False
    for st in fn.ast.body:
        if seen_loop:
            tail.append(st)
        if st is loop:
            seen_loop = True

    def returned(stmts):
        env_ = {}
        for i_, st in enumerate(stmts):
            if isinstance(st, ast.Return):
                from ..rules import _subst_env
                return _subst_env(st.value, env_) if st.value is not None else ast.Constant(value=None)
            if isinstance(st, ast.If) and st.body and isinstance(st.body[-1], ast.Return) and not st.orelse:
                a_ = returned(st.body)
                b_ = returned(stmts[i_ + 1:])
                if a_ is None or b_ is None:
                    return None
                from ..rules import _subst_env
                return ast.IfExp(test=_subst_env(st.test, env_), body=a_, orelse=b_)
            try:
                env_ = summarise([st], env_)
            except Unsupported:
                return None
        return None
    r_ = returned(tail)
    want_r = ast.parse('%s if isinstance(channels, list) else %s[0]' % (acc, acc), mode='eval').body
    ok = r_ is not None and sym.Normalizer().n(r_) == sym.Normalizer().n(want_r)
    rets = fn.stmts(ast.Return)
    fn.ob('ONCE', 'the list is unwrapped exactly when a single channel was asked for', ok, rets[0] if rets else loop,
          detail='' if ok else 'returned value is %s' % (sym.show(sym.Normalizer().n(r_)) if r_ is not None else 'not understood'), key='unwrap')
    # per-channel inputs
    pre = {}
    for st in fn.stmts(ast.Assign, loop):
        if isinstance(st.targets[0], ast.Name) and not any(isinstance(a, ast.If) for a in fn.ancestors(st) if a is not loop and any(b is loop for b in fn.ancestors(a))):
            pre[st.targets[0].id] = st
    resn = [k for k, st in pre.items() if sym.norm(st.value) == sym.norm('self.resolution(%s)' % ch)]
    rngn = [k for k, st in pre.items() if sym.norm(st.value) == sym.norm('self.range(%s)' % ch)]
    cx.need(len(resn) == 1 and len(rngn) == 1, 'hist_bins: per-channel resolution/range not read from the accessors of the loop channel')
    res, rng = resn[0], rngn[0]
    fn.ob('REACH', 'resolution and range are those of the loop channel', True, pre[res], key='inputs')
    want = sym.norm_block(ast.parse("if N is None:\n    N = R\n").body, {'N': ('var', nb), 'R': ('var', res)})
    found = [st for st in loop.body if isinstance(st, ast.If) and sym.norm_block([st]) == want]
    fn.ob('FORMULA', 'default bin count is the channel resolution', len(found) == 1, found[0] if found else loop, key='default-n')
    # scale dispatch
    branches, els, chain = scale_chain(cx, fn, loop, sc)
    ok = set(branches) == {'linear', 'log', 'logicle'}
    fn.ob('GUARD', 'exactly the scales linear, log and logicle are dispatched', ok, chain, detail=str(sorted(branches)), key='scales')
    ok = always_raises(els) and 'ValueError' in raised_types(els)
    fn.ob('GUARD', 'an unknown scale is refused with ValueError', ok, chain, key='unknown-scale')
    cx.need(ok and set(branches) == {'linear', 'log', 'logicle'}, 'hist_bins: scale dispatch changed shape')

    def last_assign(body, name):
        out = [st for st in body if isinstance(st, ast.Assign) and isinstance(st.targets[0], ast.Name)
               and st.targets[0].id == name]
        return out[-1] if out else None

    # linear
    a = last_assign(branches['linear'], res_var)
    cx.need(a is not None, 'hist_bins: linear branch does not define the edges')
    spec_check(fn, 'FORMULA', 'linear edges: n+1 points from lo-d/2 to hi+d/2 with d=(hi-lo)/(resolution-1)', a.value,
               'np.linspace(R[0] - ((R[1] - R[0]) / (S - 1))/2, R[1] + ((R[1] - R[0]) / (S - 1))/2, N + 1)',
               roles={'R': ('var', rng), 'S': ('var', res), 'N': ('var', nb)}, opaque=(rng, res, nb), at=a, node=a)
    # log
    body = branches['log']
    a = last_assign(body, res_var)
    cx.need(a is not None, 'hist_bins: log branch does not define the edges')
    # the branch read as one expression (assignments and ifs summarised symbolically): with whatever temporaries, the edges
    # are 10** of the n+1 point grid over log10 of the limits, the lower limit replaced first when it is not positive
    summary_ok = False
    try:
        env_l = summarise(body)
        if res_var in env_l:
            code_l = sym.Normalizer().n(env_l[res_var])
            RP = '([min(1., R[1] / 1e5), R[1]] if R[0] <= 0 else R)'
            L0, L1 = 'np.log10(%s[0])' % RP, 'np.log10(%s[1])' % RP
            D = '((%s - %s) / (S - 1))' % (L1, L0)
            spec_l = '10**np.linspace(%s - %s / 2, %s + %s / 2, N + 1)' % (L0, D, L1, D)
            spec_l = sym.Normalizer().n(ast.parse(spec_l.replace('R', '__R__').replace('S', '__S__').replace('N', '__N__')
                                                  .replace('__R__', rng).replace('__S__', res).replace('__N__', nb), mode='eval').body)
            summary_ok = code_l == spec_l
    except Unsupported:
        summary_ok = False
    if summary_ok:
        fn.ob('REACH', 'a non-positive lower limit is replaced by a positive one (on a new list) before the logarithm', True, a, key='log-lower')
        fn.ob('REACH', 'the logarithm is taken of the (replaced) limits', True, a, key='log-limits')
        fn.ob('FORMULA', 'log edges are 10** of a uniform grid in log space', True, a, key='log-exp')
        fn.ob('FORMULA', 'log-space grid: n+1 points from lo-d/2 to hi+d/2 with d=(hi-lo)/(resolution-1)', True, a, key='log-grid')
    if not summary_ok:
        # replacement of a non-positive lower limit
        rep = [st for st in body if isinstance(st, ast.If)]
        okr = len(rep) == 1 and sym.norm(rep[0].test) == sym.norm('%s[0] <= 0' % rng) and not rep[0].orelse \
            and sym.norm_block(rep[0].body) == sym.norm_block(ast.parse(
                '%s = [min(1., %s[1]/1e5), %s[1]]' % (rng, rng, rng)).body)
        fn.ob('REACH', 'a non-positive lower limit is replaced by a positive one (on a new list) before the logarithm', okr,
              rep[0] if rep else a, detail='' if okr else 'replacement block: %s' % (norm_stmt(rep[0]) if rep else 'missing'),
              key='log-lower')
        logdef = [st for st in body if isinstance(st, ast.Assign) and isinstance(st.targets[0], ast.Name)
                  and st.targets[0].id == rng and st not in (rep[0].body if rep else [])]
        okl = len(logdef) == 1 and sym.norm(logdef[0].value) == sym.norm('[np.log10(%s[0]), np.log10(%s[1])]' % (rng, rng)) \
            and (not rep or logdef[0].lineno > rep[0].lineno)
        fn.ob('REACH', 'the logarithm is taken of the (replaced) limits', okl, logdef[0] if logdef else a, key='log-limits')
        exp = [st for st in body if isinstance(st, ast.Assign) and sym.norm(st.value) == sym.norm('10**%s' % res_var)]
        lin = [st for st in body if isinstance(st, ast.Assign) and isinstance(st.targets[0], ast.Name)
               and st.targets[0].id == res_var and st not in exp]
        oke = len(exp) == 1 and len(lin) == 1 and exp[0].lineno > lin[0].lineno and a is exp[0]
        grid = lin[0].value if lin else None
        if not exp and len(lin) == 1 and isinstance(a.value, ast.BinOp) and isinstance(a.value.op, ast.Pow) \
                and isinstance(a.value.left, ast.Constant) and a.value.left.value == 10 and a is lin[0]:
            # one statement (the canonical spelling of grid-then-power under one name): edges = 10**grid
            oke, grid = True, a.value.right
        fn.ob('FORMULA', 'log edges are 10** of a uniform grid in log space', oke, exp[0] if exp else a, key='log-exp')
        if lin:
            spec_check(fn, 'FORMULA', 'log-space grid: n+1 points from lo-d/2 to hi+d/2 with d=(hi-lo)/(resolution-1)', grid,
                       'np.linspace(R[0] - ((R[1] - R[0]) / (S - 1))/2, R[1] + ((R[1] - R[0]) / (S - 1))/2, N + 1)',
                       roles={'R': ('var', rng), 'S': ('var', res), 'N': ('var', nb)}, opaque=(rng, res, nb), at=lin[0], node=lin[0])
    # logicle
    body = branches['logicle']
    a = last_assign(body, res_var)
    cx.need(a is not None, 'hist_bins: logicle branch does not define the edges')
    # the transform whose images the edges are: receiver of transform_non_affine in the edges expression
    recv = [c.func.value.id for c in ast.walk(a.value) if isinstance(c, ast.Call) and isinstance(c.func, ast.Attribute)
            and c.func.attr == 'transform_non_affine' and isinstance(c.func.value, ast.Name)]
    cx.need(len(recv) == 1, 'hist_bins: logicle edges are not `<transform>.transform_non_affine(...)`')
    t = recv[0]
    want_t = sym.norm('FlowCal.plot._LogicleTransform(data=self, channel=%s, **kwargs)' % ch)
    tdefs = [st for st in fn.stmts(ast.Assign, loop) if any(isinstance(x, ast.Name) and x.id == t for x in st.targets)]
    ok = len(tdefs) == 1 and sym.norm(tdefs[0].value) == want_t and any(tdefs[0] is x for x in body)
    fn.ob('FORMULA', 'the logicle transform is built, in this iteration and unconditionally, for this sample and this channel with the caller\'s overrides',
          ok, tdefs[0] if tdefs else a,
          detail='' if ok else 'transform `%s` is defined by %s' % (t, [norm_stmt(x) for x in tdefs] or 'nothing in the loop'),
          key='logicle-transform')
    spec_check(fn, 'FORMULA', 'logicle edges are the images of n+1 uniform display points from -d/2 to M+d/2, d=M/(resolution-1)',
               a.value, 'T.transform_non_affine(np.linspace(-(T.M / (S - 1))/2, T.M + (T.M / (S - 1))/2, N + 1))',
               roles={'T': ('var', t), 'S': ('var', res), 'N': ('var', nb)}, opaque=(t, res, nb), at=a, node=a)
    # no store at all: in particular the stored range (handed out by range()) is never written
    st = subscript_stores(fn)
    fn.ob('MUT', 'hist_bins performs no store through any object (the stored range is not written)', not st,
          st[0][0] if st else fn.ast, detail='' if not st else 'store `%s`' % norm_stmt(st[0][0]), key='no-store')
    cx.floor('FORMULA', cx.rules.get('FORMULA', 0), 6, 'hist_bins formulas')
    # logicle overrides: explicit T/M/W win (shared with C18)
    from . import c18
    c18.init_precedence(cx)
    c18.derivations(cx)          # T, M, W derived from the channel as documented (empty / non-negative data give the default W)
    cx.decided += [
        'unknown scale refused; exactly linear/log/logicle dispatched',
        'one edge array per requested channel in order; unwrapped iff a single channel was asked; scalar nbins/scale broadcast',
        'all three scales ask for n+1 points and pad by half of span/(resolution-1): normal forms equal the documented grids',
        'log: a non-positive lower limit is replaced by min(1, hi/1e5) before log10, on a new list; edges are 10**grid',
        'logicle: edges are transform_non_affine of the uniform display grid of the transform built for this channel with the overrides',
        'default bin count is the resolution; explicit logicle overrides T/M/W win over derived values',
        'the logicle parameters of a channel are derived by the documented statements (range limit, 4.5 decades, width from the negative events only when there are some)',
        'no store through any object in hist_bins',
    ]
    cx.not_decided += ['strict monotonicity, finiteness and centring as numerical facts (follow from the grids for finite positive spans)']
