"""C01 - loading an FCS file returns exactly the events recorded in it."""
from . import io_segments as S


def run(cx):
    S.layout_refusals(cx)
    S.decode_callargs(cx)
    S.header_fields(cx)
    S.decode_inventory(cx)
    S.size_checks(cx)
    S.sample_events(cx)
    cx.floor('FORMULA', cx.rules.get('FORMULA', 0), 30, 'decode formulas')
    cx.decided += [
        'histogram mode, ASCII/unknown data types, non byte-aligned integers and other byte orders are refused before any decoding (dominance, conditional for $PnB)',
        'the HEADER-offset and TEXT-offset decode call sites agree on every argument but begin/end; HEADER offsets have priority; FCS3.x falls back to $BEGINDATA/$ENDDATA; otherwise refusal',
        'HEADER fields: 10-byte version and six 8-byte offsets in order, blank ANALYSIS offsets read as 0',
        'every step of the decoder has the documented normal form (up to renaming of locals): shape, dtype strings with byte order and width, byte boundaries, per-byte shifts by byte order, accumulation, range bit mask ~(~0 << ceil(log2(range))), float widths',
        'data type dispatch is exhaustive and ends in refusals; the range mask is applied to integers only',
        'each memory map is dominated by the size check of the very shape it maps',
    ]
    cx.not_decided += ['that the arithmetic, so shaped, reproduces every encoded value (NumPy integer semantics: overflow, promotion) - value computation',
                       'event and parameter order inside np.memmap (C order is requested; NumPy trusted)']
