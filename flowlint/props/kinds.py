"""KINDS - abstract evaluation of FCSData.__getitem__ / __setitem__ / _name_to_index over the finite
lattice of index kinds (C04, C12).

Every kind of key is pushed through the *current source* of the three methods by a small abstract
interpreter (three-valued tests, symbolic channel count n >= 1).  The outcome per kind is
`raise <type>` or `reaches metadata branch B with translated key k'`; an oracle table states what
NumPy makes of each kind as a column selector, hence which outcomes are acceptable."""
import ast

from ..core import AnalysisError, norm_stmt
from ..rules import Fn
from .. import sym
from ..sym import dotted

INF = float('inf')


# ---------------------------------------------------------------------------
# abstract values

class V(object):
    """kind: int npint bool npbool str slice ellipsis none float list tuple arr scalar pos poslist ..."""

    def __init__(self, kind, **kw):
        self.kind = kind
        self.__dict__.update(kw)

    def __repr__(self):
        extra = {k: v for k, v in self.__dict__.items() if k != 'kind'}
        return '%s%s' % (self.kind, extra if extra else '')


REGIME = {'nmin': 2, 'exact': None}     # channel count regime: n >= nmin, or exactly `exact`


def _conc(t):
    if REGIME['exact'] is not None and t[1] not in (INF, -INF):
        return (0, t[0] * REGIME['exact'] + t[1])
    if REGIME['exact'] is not None:
        return (0, t[1])
    return t


def lin_lt(a, b):
    """(a1*n+b1) < (a2*n+b2) for all n of the regime?  True / False / None(depends on n)"""
    (a1, b1), (a2, b2) = _conc(a), _conc(b)
    if b1 == -INF or b2 == INF:
        return True if not (b1 == -INF and b2 == -INF) and not (b1 == INF) else None
    if b1 == INF or b2 == -INF:
        return False
    da, db = a2 - a1, b2 - b1
    n0 = REGIME['nmin']
    if da > 0:
        return True if da * n0 + db > 0 else None
    if da == 0:
        return db > 0
    # da < 0 : true for small n only
    return False if da * n0 + db <= 0 else None


def lin_le(a, b):
    r = lin_lt(b, a)
    return None if r is None else (not r)


def lin_add(a, b):
    return (a[0] + b[0], a[1] + b[1])


N = (1, 0)      # len(self.channels)


def intval(kind, lo, hi, tag):
    return V(kind, lo=lo, hi=hi, tag=tag, orig=tag)


INT_CLASSES = [
    ('below-2n', (0, -INF), (-2, -1)),
    ('in[-2n,-n-1]', (-2, 0), (-1, -1)),
    ('in[-n,-1]', (-1, 0), (0, -1)),
    ('in[0,n-1]', (0, 0), (1, -1)),
    ('in[n,2n-1]', (1, 0), (2, -1)),
    ('above-2n', (2, 0), (0, INF)),
]
IN_RANGE = {'in[-n,-1]', 'in[0,n-1]'}


class Raise(Exception):
    def __init__(self, etype, node):
        self.etype = etype
        self.node = node


class Return(Exception):
    def __init__(self, value, node):
        self.value = value
        self.node = node


class Interp(object):
    """Abstract interpreter for the three methods.  Unknown constructs are AnalysisErrors."""

    def __init__(self, cx):
        self.cx = cx
        self.fn = {q: Fn(cx, 'io.FCSData.' + q) for q in ('__getitem__', '__setitem__', '_name_to_index')}
        self.trace = []
        from .fcsdata_rules import key_names
        self.kc = {q: key_names(cx, self.fn[q])[0] for q in ('__getitem__', '__setitem__')}

    # -- three valued tests ---------------------------------------------------
    def truth(self, e, env):
        if isinstance(e, ast.BoolOp):
            vals = []
            for sub in e.values:       # short-circuit like Python
                v = self.truth(sub, env)
                vals.append(v)
                if isinstance(e.op, ast.And) and v is False:
                    return False
                if isinstance(e.op, ast.Or) and v is True:
                    return True
            if isinstance(e.op, ast.And):
                return True if all(v is True for v in vals) else None
            return False if all(v is False for v in vals) else None
        if isinstance(e, ast.UnaryOp) and isinstance(e.op, ast.Not):
            v = self.truth(e.operand, env)
            return None if v is None else (not v)
        if isinstance(e, ast.Compare):
            if len(e.ops) != 1:
                # chained: a <= x < b
                left = e.left
                out = True
                for op, c in zip(e.ops, e.comparators):
                    v = self.truth(ast.Compare(left=left, ops=[op], comparators=[c]), env)
                    if v is False:
                        return False
                    if v is None:
                        out = None
                    left = c
                return out
            op = e.ops[0]
            l, r = e.left, e.comparators[0]
            if isinstance(op, (ast.Is, ast.IsNot)):
                lv = self.val(l, env)
                if isinstance(r, ast.Constant) and r.value is None:
                    res = lv.kind == 'none'
                elif isinstance(r, ast.Constant) and r.value is Ellipsis or (isinstance(r, ast.Name) and r.id == 'Ellipsis'):
                    res = lv.kind == 'ellipsis'
                else:
                    raise AnalysisError('KINDS: unrecognised identity test `%s`' % norm_stmt(e))
                return res if isinstance(op, ast.Is) else (not res)
            if isinstance(op, (ast.In, ast.NotIn)):
                lv = self.val(l, env)
                if dotted(r) in ('self.channels', 'self._channels'):
                    if lv.kind != 'str':
                        res = False
                    else:
                        res = lv.known
                    return res if isinstance(op, ast.In) else (not res)
                raise AnalysisError('KINDS: unrecognised membership test `%s`' % norm_stmt(e))
            lv, rv = self.val(l, env), self.val(r, env)
            if lv.kind in ('int', 'npint', 'bool', 'len') and rv.kind in ('int', 'npint', 'bool', 'len'):
                return self.cmp_int(type(op).__name__, lv, rv)
            if lv.kind == 'typeof' or rv.kind == 'typeof':
                t, o = (lv, r) if lv.kind == 'typeof' else (rv, l)
                res = self.isinst(t.of, o)
                # type(x) == T is exact: bool is not int
                if res is True and t.of.kind == 'bool' and dotted(o) == 'int':
                    res = False
                return res if isinstance(op, ast.Eq) else (None if res is None else not res)
            raise AnalysisError('KINDS: unrecognised comparison `%s` on %s, %s' % (norm_stmt(e), lv, rv))
        if isinstance(e, ast.Call):
            d = dotted(e.func)
            if d == 'isinstance':
                return self.isinst(self.val(e.args[0], env), e.args[1])
            if d == 'hasattr' and isinstance(e.args[1], ast.Constant):
                v = self.val(e.args[0], env)
                if e.args[1].value == '__iter__':
                    return v.kind in ('str', 'list', 'tuple', 'intarray', 'boolarray', 'arr', 'poslist', 'listof')
                if e.args[1].value in ('__len__',):
                    return v.kind in ('str', 'list', 'tuple', 'intarray', 'boolarray', 'arr', 'poslist', 'listof')
                if e.args[1].value == '__index__':
                    return v.kind in ('int', 'npint', 'bool')
                raise AnalysisError('KINDS: unrecognised hasattr `%s`' % norm_stmt(e))
            if d == 'callable':
                return False
        if isinstance(e, ast.Name) or isinstance(e, ast.Constant):
            v = self.val(e, env)
            if v.kind == 'const':
                return bool(v.value)
        raise AnalysisError('KINDS: unrecognised test `%s`' % norm_stmt(e))

    def cmp_int(self, op, l, r):
        def bounds(v):
            if v.kind == 'len':
                return v.lo, v.hi
            return v.lo, v.hi
        (llo, lhi), (rlo, rhi) = bounds(l), bounds(r)
        if op == 'Lt':
            if lin_lt(lhi, rlo) is True:
                return True
            if lin_le(rhi, llo) is True:
                return False
            return None
        if op == 'LtE':
            if lin_le(lhi, rlo) is True:
                return True
            if lin_lt(rhi, llo) is True:
                return False
            return None
        if op == 'Gt':
            return self.cmp_int('Lt', r, l)
        if op == 'GtE':
            return self.cmp_int('LtE', r, l)
        if op in ('Eq', 'NotEq'):
            if llo == lhi == rlo == rhi:
                res = True
            elif lin_lt(lhi, rlo) is True or lin_lt(rhi, llo) is True:
                res = False
            else:
                res = None
            return res if op == 'Eq' or res is None else (not res)
        raise AnalysisError('KINDS: comparison %s' % op)

    def isinst(self, v, t):
        ts = t.elts if isinstance(t, ast.Tuple) else [t]
        res = False
        for x in ts:
            d = dotted(x) or ''
            name = d.split('.')[-1]
            if name in ('string_types', 'str', 'basestring', 'text_type'):
                r = v.kind == 'str'
            elif name == 'int' or name == 'integer_types':
                r = v.kind in ('int', 'bool')
            elif name in ('integer', 'Integral', 'signedinteger', 'int64', 'intp'):
                r = v.kind == 'npint' or (name == 'Integral' and v.kind in ('int', 'bool'))
            elif name == 'bool':
                r = v.kind == 'bool'
            elif name == 'bool_':
                r = v.kind == 'npbool'
            elif name == 'slice':
                r = v.kind == 'slice'
            elif name == 'tuple':
                r = v.kind == 'tuple'
            elif name == 'list':
                r = v.kind in ('list', 'poslist', 'listof')
            elif name == 'ndarray':
                r = v.kind in ('intarray', 'boolarray', 'arr')
            elif name in ('float', 'floating'):
                r = v.kind == 'float'
            elif name in ('Number', 'Real'):
                r = v.kind in ('int', 'bool', 'float', 'npint')
            elif name in ('Iterable', 'Sequence'):
                r = v.kind in ('str', 'list', 'tuple', 'poslist', 'listof') or (name == 'Iterable' and v.kind in ('intarray', 'boolarray', 'arr'))
            elif name == 'ellipsis' or name == 'EllipsisType':
                r = v.kind == 'ellipsis'
            else:
                raise AnalysisError('KINDS: unrecognised isinstance type %s' % d)
            res = res or r
        return res

    # -- values ------------------------------------------------------------------
    def val(self, e, env):
        if isinstance(e, ast.Name):
            if e.id in env:
                return env[e.id]
            if e.id == 'Ellipsis':
                return V('ellipsis')
            raise AnalysisError('KINDS: unknown name %s' % e.id)
        if isinstance(e, ast.Constant):
            if e.value is None:
                return V('none')
            if e.value is Ellipsis:
                return V('ellipsis')
            if isinstance(e.value, bool):
                return V('const', value=e.value)
            if isinstance(e.value, int):
                return V('int', lo=(0, e.value), hi=(0, e.value), tag='const', orig='const')
            return V('const', value=e.value)
        if isinstance(e, ast.Subscript):
            b = self.val(e.value, env)
            if b.kind == 'tuple' and isinstance(e.slice, ast.Constant) and isinstance(e.slice.value, int):
                if -len(b.items) <= e.slice.value < len(b.items):
                    return b.items[e.slice.value]
                raise Raise('IndexError', e)
            raise AnalysisError('KINDS: unrecognised subscript `%s`' % norm_stmt(e))
        if isinstance(e, ast.Tuple):
            return V('tuple', items=[self.val(x, env) for x in e.elts])
        if isinstance(e, ast.Call):
            d = dotted(e.func)
            if d == 'len':
                a = e.args[0]
                if dotted(a) in ('self.channels', 'self._channels'):
                    return V('len', lo=N, hi=N)
                v = self.val(a, env)
                if v.kind == 'tuple':
                    k = len(v.items)
                    return V('int', lo=(0, k), hi=(0, k), tag='const', orig='const')
                raise AnalysisError('KINDS: len of %s' % v)
            if d == 'type' and len(e.args) == 1:
                return V('typeof', of=self.val(e.args[0], env))
            if d in ('self._name_to_index',):
                return self.call_name_to_index(self.val(e.args[0], env), e)
            if d in ('self.channels.index', 'self._channels.index'):
                v = self.val(e.args[0], env)
                if v.kind == 'str' and v.known:
                    return V('int', lo=(0, 0), hi=(1, -1), tag='in[0,n-1]', orig='name')
                raise Raise('ValueError', e)
            if d in ('np.ndarray.__getitem__', 'numpy.ndarray.__getitem__', 'super().__getitem__'):
                key = self.val(e.args[-1], env)
                return self.numpy_getitem(key, e)
            if d in ('int', 'operator.index') and len(e.args) == 1:
                v = self.val(e.args[0], env)
                if v.kind in ('int', 'npint', 'bool'):
                    return V('int', lo=getattr(v, 'lo', (0, 0)), hi=getattr(v, 'hi', (0, 1)), tag=getattr(v, 'tag', 'bool'),
                             orig=getattr(v, 'orig', 'bool'))
                raise Raise('TypeError', e)
            if d == 'list' and len(e.args) == 1:
                v = self.val(e.args[0], env)
                if v.kind in ('list', 'tuple', 'listof', 'poslist'):
                    return V('list' if v.kind in ('list', 'tuple') else v.kind, **{k: x for k, x in v.__dict__.items() if k != 'kind'})
            if d == 'slice':
                return V('slice', derived=True, args=[self.val(a, env) for a in e.args])
            if isinstance(e.func, ast.Attribute) and e.func.attr == 'view' and len(e.args) == 1 \
                    and dotted(e.args[0]) in ('np.ndarray', 'numpy.ndarray'):
                v = self.val(e.func.value, env)
                if v.kind in ('arr', 'plainarr'):
                    return V('plainarr')
            raise AnalysisError('KINDS: unrecognised call `%s`' % norm_stmt(e))
        if isinstance(e, ast.BinOp) and isinstance(e.op, (ast.Add, ast.Sub, ast.Mod)):
            l, r = self.val(e.left, env), self.val(e.right, env)
            if isinstance(e.op, ast.Mod) and r.kind == 'len' and l.kind in ('int', 'npint', 'bool'):
                return V(l.kind, lo=(0, 0), hi=(1, -1), tag='in[0,n-1]', orig=getattr(l, 'orig', '?') + '%n')
            if l.kind in ('int', 'npint') and r.kind in ('len', 'int'):
                sgn = 1 if isinstance(e.op, ast.Add) else -1
                lo = lin_add(l.lo, (sgn * r.lo[0], sgn * r.lo[1]))
                hi = lin_add(l.hi, (sgn * r.hi[0], sgn * r.hi[1]))
                if sgn < 0:
                    lo, hi = lin_add(l.lo, (-r.hi[0], -r.hi[1])), lin_add(l.hi, (-r.lo[0], -r.lo[1]))
                return V(l.kind, lo=lo, hi=hi, tag='shifted', orig=l.orig + ('+' if sgn > 0 else '-') + 'n')
            raise AnalysisError('KINDS: arithmetic `%s`' % norm_stmt(e))
        if isinstance(e, ast.UnaryOp) and isinstance(e.op, ast.USub):
            v = self.val(e.operand, env)
            if v.kind in ('int', 'npint', 'len'):
                neg = lambda t: (-t[0], -t[1] if t[1] not in (INF, -INF) else -t[1])
                return V('int' if v.kind == 'len' else v.kind, lo=neg(v.hi), hi=neg(v.lo), tag='neg', orig='-' + getattr(v, 'orig', 'n'))
            raise AnalysisError('KINDS: negation of %s' % v)
        if isinstance(e, ast.ListComp) and len(e.generators) == 1 and not e.generators[0].ifs:
            g = e.generators[0]
            it = self.val(g.iter, env)
            elems = self.elements(it)
            out = []
            for x in elems:
                env2 = dict(env)
                env2[g.target.id] = x
                out.append(self.val(e.elt, env2))
            return V('listof', items=out, of=it.kind)
        if isinstance(e, ast.IfExp):
            t = self.truth(e.test, env)
            if t is None:
                raise AnalysisError('KINDS: undecided conditional expression `%s`' % norm_stmt(e))
            if isinstance(env, dict):
                env.setdefault('__path__', V('path', items=[])).items.append((e, t))     # a decision like an if statement's
            return self.val(e.body if t else e.orelse, env)
        if isinstance(e, ast.Attribute) and dotted(e) in ('self.channels', 'self._channels'):
            return V('channels')
        raise AnalysisError('KINDS: unrecognised expression `%s`' % norm_stmt(e))

    def elements(self, v):
        if v.kind in ('list', 'tuple', 'listof'):
            return v.items
        if v.kind == 'intarray':
            return [intval('npint', lo, hi, tag) for tag, lo, hi in INT_CLASSES if tag in v.classes]
        if v.kind == 'boolarray':
            return [V('npbool')]
        if v.kind == 'str':
            return [V('str', known=False)]
        raise AnalysisError('KINDS: iteration over %s' % v)

    def numpy_getitem(self, key, node):
        """result of ndarray.__getitem__ for a 2-tuple key: scalar iff both parts select one item."""
        if key.kind == 'tuple' and len(key.items) == 2:
            ev, ch = key.items
            single = lambda x: x.kind in ('int', 'npint') or (x.kind == 'bool')
            if single(ev) and single(ch):
                return V('scalar')
        return V('arr')

    # -- running a method ---------------------------------------------------------
    def call_name_to_index(self, arg, node):
        fn = self.fn['_name_to_index']
        p = fn.params[1]
        try:
            self.run(fn.ast.body, {'self': V('self'), p: arg}, fn)
        except Return as r:
            return r.value
        raise AnalysisError('KINDS: _name_to_index fell off its end for %s' % arg)

    def run(self, stmts, env, fn):
        for st in stmts:
            if isinstance(st, ast.Expr):
                if isinstance(st.value, ast.Constant):
                    continue
                if isinstance(st.value, ast.Call):
                    d = dotted(st.value.func) or ''
                    if d.endswith('__setitem__'):
                        raise Return(V('write', key=self.val(st.value.args[-2], env)), st)
                    if d.endswith('warn'):
                        continue
                raise AnalysisError('KINDS: unrecognised statement `%s`' % norm_stmt(st))
            if isinstance(st, ast.Assign) and len(st.targets) == 1:
                t = st.targets[0]
                if isinstance(t, ast.Name):
                    env[t.id] = self.val(st.value, env)
                    continue
                if isinstance(t, ast.Attribute) and isinstance(t.value, ast.Name) and env.get(t.value.id, V('?')).kind == 'arr':
                    # metadata store on the result: record the branch
                    env.setdefault('__stores__', V('stores', items=[])).items.append(st)
                    continue
                if isinstance(t, ast.Tuple) and all(isinstance(x_, ast.Name) for x_ in t.elts):
                    v_ = self.val(st.value, env)
                    if v_.kind == 'tuple' and len(v_.items) == len(t.elts):
                        for x_, i_ in zip(t.elts, v_.items):
                            env[x_.id] = i_
                        continue
                raise AnalysisError('KINDS: unrecognised assignment `%s`' % norm_stmt(st))
            if isinstance(st, ast.AugAssign) and isinstance(st.target, ast.Name):
                env[st.target.id] = self.val(ast.BinOp(left=st.target, op=st.op, right=st.value), env)
                continue
            if isinstance(st, ast.If):
                t = self.truth(st.test, env)
                if t is None:
                    raise AnalysisError('KINDS: test `%s` is undecided for this kind (refine the kind classes)' % norm_stmt(st.test))
                env.setdefault('__path__', V('path', items=[])).items.append((st, t))
                self.run(st.body if t else st.orelse, env, fn)
                continue
            if isinstance(st, ast.Return):
                raise Return(self.val(st.value, env) if st.value is not None else V('none'), st)
            if isinstance(st, ast.Raise):
                e = st.exc.func if isinstance(st.exc, ast.Call) else st.exc
                raise Raise(dotted(e) or '?', st)
            if isinstance(st, ast.Pass):
                continue
            raise AnalysisError('KINDS: unrecognised statement `%s`' % norm_stmt(st))

    def getitem(self, key, method='__getitem__'):
        """Outcome of __getitem__/__setitem__ for an abstract key: dict(outcome=..., ...)"""
        fn = self.fn[method]
        env = {'self': V('self'), fn.params[1]: key}
        if method == '__setitem__':
            env[fn.params[2]] = V('arr')
        try:
            self.run(fn.ast.body, env, fn)
        except Raise as r:
            return {'outcome': 'raise', 'etype': r.etype.split('.')[-1], 'node': r.node}
        except Return as r:
            stores = env.get('__stores__')
            path = env.get('__path__')
            return {'outcome': 'return', 'value': r.value, 'node': r.node, 'stores': stores.items if stores else [],
                    'env': env, 'path': path.items if path else []}
        return {'outcome': 'return', 'value': V('none'), 'node': fn.ast, 'stores': [], 'env': env, 'path': []}


# ---------------------------------------------------------------------------
# the kind domain and the NumPy oracle

def column_kinds():
    """(name, abstract value, NumPy meaning as a column selector, acceptable outcomes)"""
    out = []
    for tag, lo, hi in INT_CLASSES:
        inr = tag in IN_RANGE
        out.append(('py-int ' + tag, intval('int', lo, hi, tag), 'position' if inr else 'out of bounds',
                    {'scalar-identity'} if inr else {'raise'}))
        out.append(('numpy-integer ' + tag, intval('npint', lo, hi, tag), 'position' if inr else 'out of bounds',
                    {'scalar-identity'} if inr else {'raise'}))
    out.append(('py-bool False', V('bool', lo=(0, 0), hi=(0, 0), tag='bool', orig='bool'), '0-d mask (adds an axis)', {'raise', 'native'}))
    out.append(('py-bool True', V('bool', lo=(0, 1), hi=(0, 1), tag='bool', orig='bool'), '0-d mask (adds an axis)', {'raise', 'native'}))
    out.append(('str known name', V('str', known=True), 'name -> position', {'scalar-name'}))
    out.append(('str unknown name', V('str', known=False), 'no such column', {'raise'}))
    out.append(('slice', V('slice'), 'range of columns', {'slice'}))
    out.append(('Ellipsis', V('ellipsis'), 'all remaining axes', {'native'}))
    out.append(('None', V('none'), 'new axis', {'plain'}))
    out.append(('float', V('float'), 'invalid index', {'raise', 'native'}))
    ok_i = intval('int', (0, 0), (1, -1), 'in[0,n-1]')
    neg_i = intval('int', (-1, 0), (0, -1), 'in[-n,-1]')
    bad_i = intval('int', (1, 0), (2, -1), 'in[n,2n-1]')
    low_i = intval('int', (-2, 0), (-1, -1), 'in[-2n,-n-1]')
    for cont in ('list', 'tuple'):
        out.append(('%s[int, -int, name]' % cont, V(cont, items=[ok_i, neg_i, V('str', known=True)]), 'positions',
                    {'iter-positions'}))
        out.append(('%s[numpy-integer]' % cont, V(cont, items=[intval('npint', (0, 0), (1, -1), 'in[0,n-1]')]), 'positions',
                    {'iter-positions'}))
        out.append(('%s[int >= n]' % cont, V(cont, items=[ok_i, bad_i]), 'out of bounds', {'raise'}))
        out.append(('%s[int < -n]' % cont, V(cont, items=[low_i]), 'out of bounds', {'raise'}))
        out.append(('%s[unknown name]' % cont, V(cont, items=[V('str', known=True), V('str', known=False)]), 'no such column', {'raise'}))
        out.append(('%s[py-bool]' % cont, V(cont, items=[V('bool', lo=(0, 0), hi=(0, 0), tag='bool', orig='bool'),
                                                         V('bool', lo=(0, 1), hi=(0, 1), tag='bool', orig='bool')]),
                    'boolean mask', {'raise', 'iter-mask'}))
        out.append(('%s[float]' % cont, V(cont, items=[V('float')]), 'invalid index', {'raise'}))
    out.append(('int-ndarray in range', V('intarray', classes={'in[0,n-1]', 'in[-n,-1]'}), 'positions', {'iter-positions', 'native-positions'}))
    out.append(('int-ndarray out of range', V('intarray', classes={'in[0,n-1]', 'in[n,2n-1]'}), 'out of bounds', {'raise'}))
    out.append(('bool-ndarray', V('boolarray'), 'boolean mask', {'raise', 'iter-mask'}))
    return out


def event_kinds():
    return [('int', intval('int', (0, 0), (0, 0), 'const')), ('slice', V('slice')), ('list[int]', V('list', items=[intval('int', (0, 0), (0, 0), 'const')])),
            ('bool-mask', V('boolarray')), ('Ellipsis', V('ellipsis'))]


def classify(cx, itp, res, colkind, colval, evval):
    """Turn an interpreter outcome into one of the outcome labels of the oracle table."""
    if res['outcome'] == 'raise':
        return 'raise', res['etype']
    fn = itp.fn['__getitem__']
    env = res['env']
    stores = res['stores']
    val = res['value']
    # which key reached ndarray.__getitem__ ?
    kc = env.get(itp.kc['__getitem__'])
    if val.kind == 'scalar' and not stores:
        # single value returned before any attribute store
        if kc is not None and kc.kind in ('int', 'npint'):
            same = (kc.lo, kc.hi) == (colval.lo, colval.hi) if colval.kind in ('int', 'npint') else None
            if colval.kind == 'str':
                return 'scalar-name', ''
            return ('scalar-identity' if same else 'scalar-shifted'), getattr(kc, 'orig', '')
        return 'native', ''
    if val.kind == 'plainarr':
        return 'plain', ''
    if not stores:
        # no metadata branch entered
        took_plain = any('view' in ast.unparse(s) for s in ast.walk(fn.ast) if isinstance(s, ast.Call)) and val.kind == 'arr'
        # distinguish plain-ndarray branch from native branch by the path taken
        for st, t in res['path']:
            if t and 'is None' in ast.unparse(st.test) and 'or' in ast.unparse(st.test):
                return 'plain', ''
        return 'native', ''
    # metadata branch: classify by the shape of the first store
    first = stores[0]
    txt = sym.norm(first.value)
    attr = first.targets[0].attr
    base = first.targets[0].value.id
    kcn = itp.kc['__getitem__']
    forms = {
        'iter': sym.norm('tuple([%s.%s[kc] for kc in %s])' % (base, attr, kcn)),
        'slice': sym.norm('%s.%s[%s]' % (base, attr, kcn)),
        'scalar': sym.norm('tuple([%s.%s[%s]])' % (base, attr, kcn)),
    }
    which = [k for k, v in forms.items() if v == txt]
    if not which:
        return 'unrecognised-branch', norm_stmt(first)
    which = which[0]
    if kc is None:
        return 'unrecognised-branch', 'no key_channel'
    if which == 'iter':
        if kc.kind == 'listof':
            items = kc.items
            if all(i.kind in ('int', 'npint') and i.tag in IN_RANGE for i in items):
                # every element translated to an in-range position
                return 'iter-positions', ''
            if any(i.kind in ('bool', 'npbool') for i in items):
                return 'iter-positions-from-bool', ''
            return 'iter-other', str(items)
        if kc.kind in ('list', 'tuple', 'intarray'):
            return 'iter-untranslated', kc.kind
        return 'iter-other', kc.kind
    if which == 'slice':
        if kc.kind == 'slice' and not getattr(kc, 'derived', False):
            return 'slice', ''
        return 'slice-derived', str(kc)
    if which == 'scalar':
        if kc.kind in ('int', 'npint'):
            if colval.kind == 'str':
                return 'scalar-name', ''
            same = colval.kind in ('int', 'npint') and (kc.lo, kc.hi) == (colval.lo, colval.hi)
            return ('scalar-identity' if same else 'scalar-shifted'), getattr(kc, 'orig', '')
        if kc.kind == 'bool':
            return 'scalar-from-bool', ''
        return 'scalar-other', kc.kind
    return 'unrecognised-branch', which


def evaluate(cx):
    """Run the whole table under both channel-count regimes (n = 1 and n >= 2); returns list of rows."""
    itp = Interp(cx)
    rows = []
    for regime, label in (({'nmin': 2, 'exact': None}, 'n>=2'), ({'nmin': 1, 'exact': 1}, 'n=1')):
        REGIME.update(regime)
        try:
            rows += _evaluate(cx, itp, label)
        finally:
            REGIME.update({'nmin': 2, 'exact': None})
    return itp, rows


def _evaluate(cx, itp, regime):
    rows = []
    for cname, cval, meaning, allowed in column_kinds():
        for ename, evalue in event_kinds():
            key = V('tuple', items=[evalue, cval])
            res = itp.getitem(key)
            label, extra = classify(cx, itp, res, cname, cval, evalue)
            # a single int event with a single position returns a scalar: same acceptance as scalar-identity
            rows.append({'column': cname, 'event': ename, 'numpy_meaning': meaning, 'outcome': label, 'extra': extra,
                         'allowed': sorted(allowed), 'ok': label in allowed, 'node': res.get('node'), 'regime': regime})
    return rows


def run_table(cx, rule='KINDS'):
    itp, rows = evaluate(cx)
    fn = itp.fn['__getitem__']
    tab = []
    for r in rows:
        tab.append('[%s] %-34s x %-9s -> %-18s %s (NumPy: %s)' % (r['regime'], r['column'], r['event'], r['outcome'], r['extra'], r['numpy_meaning']))
        # the outcome must not depend on the event kind except scalar-vs-branch: report per (column, event)
        fn.ob(rule, '[%s channels] column key %s with event key %s: %s' % (r['regime'], r['column'], r['event'], ' or '.join(r['allowed'])), r['ok'],
              r['node'] if isinstance(r['node'], ast.AST) else fn.ast,
              detail='' if r['ok'] else 'outcome is %s %s, but NumPy reads this key as: %s' % (r['outcome'], r['extra'], r['numpy_meaning']),
              key='%s|%s|%s' % (r['regime'], r['column'], r['event']))
    cx.tables['KINDS outcome table'] = tab
    cx.exhaustive = True
    cx.floor(rule, len(rows), 300, 'kind pairs')
    # whole-key kinds other than a 2-tuple go to NumPy untouched
    for name, key in (('int', intval('int', (0, 0), (0, 0), 'const')), ('slice', V('slice')), ('bool-mask', V('boolarray')),
                      ('Ellipsis', V('ellipsis')), ('None', V('none')), ('1-tuple', V('tuple', items=[V('slice')])),
                      ('3-tuple', V('tuple', items=[V('slice'), V('slice'), V('none')])), ('str', V('str', known=True)),
                      ('list[int]', V('list', items=[intval('int', (0, 0), (0, 0), 'const')]))):
        res = itp.getitem(key)
        ok = res['outcome'] == 'return' and not res['stores']
        fn.ob(rule, 'a key that is not an (events, channels) pair is handed to NumPy unchanged (%s)' % name, ok, fn.ast,
              detail='' if ok else str(res.get('outcome')), key='whole-' + name)
    # (None, x) and (x, None) give a plain ndarray
    for name, key in (('(None, slice)', V('tuple', items=[V('none'), V('slice')])), ('(slice, None)', V('tuple', items=[V('slice'), V('none')]))):
        res = itp.getitem(key)
        ok = res['outcome'] == 'return' and not res['stores'] and any(t and 'is None' in ast.unparse(st.test) for st, t in res['path'])
        fn.ob(rule, 'a pair containing None (new axis) yields a plain array without channel metadata: %s' % name, ok, fn.ast,
              key='none-' + name)
    return itp, rows


def setitem_agreement(cx, itp, rule='KINDS'):
    """__setitem__ applies the same key decomposition: for every column kind the translated key that
    reaches ndarray.__setitem__ equals the key that reaches ndarray.__getitem__, and refusals agree."""
    fn = itp.fn['__setitem__']
    n = 0
    for cname, cval, meaning, allowed in column_kinds():
        ev = V('slice')
        g = itp.getitem(V('tuple', items=[ev, cval]), '__getitem__')
        s = itp.getitem(V('tuple', items=[ev, cval]), '__setitem__')
        if g['outcome'] == 'raise' or s['outcome'] == 'raise':
            ok = g['outcome'] == s['outcome'] and g.get('etype') == s.get('etype')
            d = 'get: %s %s, set: %s %s' % (g['outcome'], g.get('etype', ''), s['outcome'], s.get('etype', ''))
        else:
            gk = g['env'].get(itp.kc['__getitem__'])
            sk = s['env'].get(itp.kc['__setitem__'])
            ok = repr(gk) == repr(sk)
            d = 'get translates to %s, set to %s' % (gk, sk)
        n += 1
        fn.ob(rule, 'assignment addresses the same columns as reading for column key %s' % cname, ok, fn.ast,
              detail='' if ok else d, key='set|' + cname)
    cx.floor(rule, n, 30, 'set/get agreement kinds')


def basic_kinds_accepted(cx, rule='KINDS'):
    """C12: kinds NumPy's reductions apply to their array argument are not refused."""
    itp = Interp(cx)
    fn = itp.fn['__getitem__']
    basics = [('py-int', intval('int', (0, 0), (1, -1), 'in[0,n-1]')), ('negative py-int', intval('int', (-1, 0), (0, -1), 'in[-n,-1]')),
              ('numpy-integer', intval('npint', (0, 0), (1, -1), 'in[0,n-1]')), ('slice', V('slice')), ('Ellipsis', V('ellipsis'))]
    events = [('int', intval('int', (0, 0), (0, 0), 'const')), ('negative int', intval('int', (0, -1), (0, -1), 'const')),
              ('slice', V('slice')), ('Ellipsis', V('ellipsis'))]
    n = 0
    for cn, cv in basics:
        for en, ev in events:
            res = itp.getitem(V('tuple', items=[ev, cv]))
            ok = res['outcome'] != 'raise'
            n += 1
            fn.ob(rule, 'basic index (%s, %s), as NumPy reductions use internally, is accepted' % (en, cn), ok,
                  res['node'] if isinstance(res.get('node'), ast.AST) else fn.ast,
                  detail='' if ok else 'refused with %s' % res.get('etype'), key='basic|%s|%s' % (en, cn))
    cx.floor(rule, n, 20, 'basic index pairs')
