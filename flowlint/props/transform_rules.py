"""Shared rules over FlowCal/transform.py (used by C03, C06, C07, C13)."""
import ast

from ..core import AnalysisError, norm_stmt
from ..rules import (Fn, guards, guard_dominates, names_in, kwarg, spec_check, is_none_test,
                     subscript_stores, always_raises, raised_types)
from ..cfg import target_names, root_name
from .. import sym
from ..sym import dotted

REORDERING = {'sorted', 'set', 'reversed', 'np.unique', 'numpy.unique', 'np.sort', 'numpy.sort',
              'frozenset', 'np.flip', 'numpy.flip'}


def zip_loops(fn):
    """For loops of the form `for a, b, .. in zip(A, B, ..)` -> list of (forstmt, [(target, arg)])."""
    out = []
    for f in fn.stmts(ast.For):
        if isinstance(f.iter, ast.Call) and dotted(f.iter.func) in ('zip', 'six.moves.zip') \
                and isinstance(f.target, ast.Tuple) and len(f.target.elts) == len(f.iter.args) \
                and all(isinstance(t, ast.Name) for t in f.target.elts):
            out.append((f, list(zip([t.id for t in f.target.elts], f.iter.args))))
    return out


def order_preserving_defs(fn, name, at, param, extra_ok=()):
    """Every definition of `name` reaching `at` must derive from parameter `param` by an
    order-preserving step.  Returns (ok, description of the offending definition or None)."""
    seen = set()
    work = [(name, fn.node(at))]
    data = fn.params[0]
    while work:
        nm, node = work.pop()
        for d in fn.rd.reaching(node, nm):
            if (nm, d.id) in seen:
                continue
            seen.add((nm, d.id))
            if d.kind == 'entry':
                if nm not in ((param,) if isinstance(param, str) else tuple(param)):
                    return False, 'parameter %s used where %s expected' % (nm, param)
                continue
            v = fn.rd.assigned_value(d, nm)
            if v is None:
                return None, 'non-plain definition `%s`' % norm_stmt(d.ast)
            # [x] wrap of a scalar
            if isinstance(v, ast.List) and len(v.elts) == 1 and isinstance(v.elts[0], ast.Name):
                work.append((v.elts[0].id, d))
                continue
            if isinstance(v, ast.IfExp):
                # both outcomes must be order preserving: examine each as if it were assigned alone
                alts = [v.body, v.orelse]
            else:
                alts = [v]
            handled = True
            for v in alts:
                r_ = _order_step(fn, v, d, work, extra_ok)
                if r_ is not True:
                    if r_ is False:
                        return False, '`%s` re-orders or de-duplicates the list' % norm_stmt(d.ast)
                    handled = False
            if handled:
                continue
            return None, 'unrecognised definition `%s`' % norm_stmt(d.ast)
            if isinstance(v, ast.Name):
                work.append((v.id, d))
                continue
            if isinstance(v, ast.Call):
                f = dotted(v.func)
                if f in REORDERING or (f and f.split('.')[-1] in ('unique', 'sort', 'argsort')):
                    return False, '`%s` re-orders or de-duplicates the list' % norm_stmt(d.ast)
                if f in ('range', 'list', 'tuple'):
                    if f == 'range':
                        continue
                    if len(v.args) == 1 and isinstance(v.args[0], ast.Name):
                        work.append((v.args[0].id, d))
                        continue
                if f and f.endswith('._name_to_index') and len(v.args) == 1 and isinstance(v.args[0], ast.Name):
                    work.append((v.args[0].id, d))
                    continue
            if any(sym.norm(v) == sym.norm(e) for e in extra_ok):
                continue
            return None, 'unrecognised definition `%s`' % norm_stmt(d.ast)
    # in-place re-ordering calls on the name
    for c in fn.calls():
        if isinstance(c.func, ast.Attribute) and isinstance(c.func.value, ast.Name) and c.func.value.id == name \
                and c.func.attr in ('sort', 'reverse'):
            return False, '`%s` re-orders the list in place' % norm_stmt(c)
    return True, None


def _order_step(fn, v, d, work, extra_ok):
    """True: order preserving (work extended), False: re-ordering, None: unrecognised."""
    if isinstance(v, ast.List) and len(v.elts) == 1 and isinstance(v.elts[0], ast.Name):
        work.append((v.elts[0].id, d))
        return True
    if isinstance(v, ast.Name):
        work.append((v.id, d))
        return True
    if isinstance(v, ast.Call):
        f = dotted(v.func)
        if f in REORDERING or (f and f.split('.')[-1] in ('unique', 'sort', 'argsort')):
            return False
        if f == 'range':
            return True
        if f in ('list', 'tuple') and len(v.args) == 1 and isinstance(v.args[0], ast.Name):
            work.append((v.args[0].id, d))
            return True
        if f and f.endswith('._name_to_index') and len(v.args) == 1 and isinstance(v.args[0], ast.Name):
            work.append((v.args[0].id, d))
            return True
    if any(sym.norm(v) == sym.norm(e) for e in extra_ok):
        return True
    return None


def check_order(fn, rule, inst, name, at, param, extra_ok=()):
    ok, why = order_preserving_defs(fn, name, at, param, extra_ok)
    if ok is None:
        raise AnalysisError('%s: %s: %s' % (fn.qual, inst, why))
    fn.ob(rule, inst, ok, at, detail=why or '', key=inst)
    return ok


# ---------------------------------------------------------------------------
# to_rfi

ROLE_PARAMS = ('resolution', 'amplification_type', 'amplifier_gain')


def to_rfi_roles(cx, fn):
    loops = [(f, pairs) for f, pairs in zip_loops(fn)
             if {dotted(a) for _, a in pairs} >= set(ROLE_PARAMS) | {'channels'}]
    cx.need(len(loops) == 1, 'transform.to_rfi: expected one loop zipping channels with the three setting lists')
    loop, pairs = loops[0]
    roles = {dotted(a): t for t, a in pairs}
    return loop, roles


def to_rfi_sib(cx, fn):
    """The three argument-normalisation blocks are alike and refuse unequal lengths."""
    blocks = {}
    for p in ROLE_PARAMS:
        for st in fn.stmts(ast.If):
            if is_none_test(st.test, p) and not any(isinstance(a, ast.For) for a in fn.ancestors(st)):
                blocks[p] = st
    cx.need(len(blocks) == 3, 'transform.to_rfi: normalisation blocks found for %s only' % sorted(blocks))
    nfs = {p: sym.norm_block([b], {p: ('var', '<SETTING>')}) for p, b in blocks.items()}
    ref = nfs['resolution']
    spec = sym.norm_block(sym.parse_block(
        "if S is None:\n    S = [None]*len(channels)\n"
        "elif hasattr(S, '__iter__'):\n    if len(S) != len(channels):\n        raise ValueError('x')\n"
        "else:\n    raise ValueError('x')\n"), {'S': ('var', '<SETTING>')})
    for p in ROLE_PARAMS:
        same = nfs[p] == spec
        fn.ob('SIB', 'normalisation of %s: None -> per-channel None, list of other length refused, anything else refused' % p,
              same, blocks[p], detail='' if same else 'block differs from the documented shape (siblings: %s)'
              % ', '.join(q for q in ROLE_PARAMS if nfs[q] == spec), key='sib-' + p)
    # the blocks run only for an iterable `channels` and before the pairing loop
    loop, roles = to_rfi_roles(cx, fn)
    for p in ROLE_PARAMS:
        ok = fn.cfg.reaches_avoiding(fn.cfg.node_of(blocks[p]), fn.node(loop), []) and \
            not fn.cfg.reaches_avoiding(fn.node(loop), fn.cfg.node_of(blocks[p]), [])
        fn.ob('GUARD', 'length refusal for %s precedes the pairing loop' % p, ok, blocks[p], key='order-' + p)
    # scalar channel: every setting wrapped in a one-element list together with channels
    wraps = [st for st in fn.stmts(ast.Assign) if isinstance(st.value, ast.List) and len(st.value.elts) == 1
             and isinstance(st.value.elts[0], ast.Name) and isinstance(st.targets[0], ast.Name)
             and st.targets[0].id == st.value.elts[0].id]
    wrapped = {st.targets[0].id for st in wraps}
    ok = wrapped >= set(ROLE_PARAMS) | {'channels'}
    fn.ob('SIB', 'a scalar channel wraps channels and all three settings alike', ok, wraps[0] if wraps else fn.ast,
          detail='' if ok else 'wrapped: %s' % sorted(wrapped), key='scalar-wrap')
    return blocks


def to_rfi_laws(cx, fn):
    loop, roles = to_rfi_roles(cx, fn)
    ch, r, at, ag = roles['channels'], roles['resolution'], roles['amplification_type'], roles['amplifier_gain']
    lambdas = [st for st in fn.stmts(ast.Assign, loop) if isinstance(st.value, ast.Lambda)
               and isinstance(st.targets[0], ast.Name)]
    cx.need(len(lambdas) == 2, 'transform.to_rfi: expected two law definitions in the loop, found %d' % len(lambdas))
    tf = lambdas[0].targets[0].id
    cx.need(all(l.targets[0].id == tf for l in lambdas), 'transform.to_rfi: the two laws are bound to different names')
    # selection: linear iff at[0] == 0
    sel = None
    for st in fn.stmts(ast.If, loop):
        if fn.in_body_of(lambdas[0], st, 'body') != fn.in_body_of(lambdas[1], st, 'body') and \
                (fn.in_body_of(lambdas[0], st, 'body') or fn.in_body_of(lambdas[0], st, 'orelse')) and \
                (fn.in_body_of(lambdas[1], st, 'body') or fn.in_body_of(lambdas[1], st, 'orelse')):
            sel = st
    cx.need(sel is not None, 'transform.to_rfi: the two laws are not the branches of one test')
    t = sym.norm(sel.test)
    lin_in_body = None
    if t == sym.norm('%s[0] == 0' % at):
        lin_in_body = True
    elif t == sym.norm('%s[0] != 0' % at):
        lin_in_body = False
    fn.ob('FORMULA', 'law selected on the decades of the amplification type (a0 == 0 means linear)',
          lin_in_body is not None, sel, detail='' if lin_in_body is not None else 'selection test is %s' % sym.show(t),
          key='law-select')
    if lin_in_body is None:
        return loop, roles, tf
    for l in lambdas:
        is_lin = fn.in_body_of(l, sel, 'body') == lin_in_body
        got = sym.norm(l.value)
        want = sym.norm('lambda x: x / %s' % ag) if is_lin else \
            sym.norm('lambda x: %s[1] * 10**(%s[0] * x / %s)' % (at, at, r))
        ok = got == want
        fn.ob('FORMULA', 'linear law is x/g' if is_lin else 'log law is a1*10**(a0*x/r)', ok, l,
              detail='' if ok else 'law is %s, documented law is %s' % (sym.show(got), sym.show(want)),
              key='law-linear' if is_lin else 'law-log')
    # CLOSURE: the law is only ever called inside the iteration that created it
    for n in fn.walk():
        if isinstance(n, ast.Name) and n.id == tf and isinstance(n.ctx, ast.Load):
            par = fn.parent.get(id(n))
            ok = isinstance(par, ast.Call) and par.func is n and any(a is loop for a in fn.ancestors(n))
            fn.ob('CLOSURE', 'per-iteration law does not escape its iteration', ok, n,
                  detail='' if ok else '`%s` used other than as callee inside the loop' % tf, key='closure')
    return loop, roles, tf


def _none_conj(test, v):
    """`v is None`, alone or as one conjunct of the test"""
    if is_none_test(test, v):
        return True
    return isinstance(test, ast.BoolOp) and isinstance(test.op, ast.And) and any(is_none_test(x, v) for x in test.values)


def to_rfi_defaults(cx, fn):
    loop, roles = to_rfi_roles(cx, fn)
    ch = roles['channels']
    data = fn.params[0]
    for p, accessor, fallback in (('amplification_type', 'amplification_type', None),
                                  ('amplifier_gain', 'amplifier_gain', 1),
                                  ('resolution', 'resolution', None)):
        v = roles[p]
        assigns = [st for st in fn.stmts(ast.Assign, loop)
                   if isinstance(st.targets[0], ast.Name) and st.targets[0].id == v]
        cx.need(assigns, 'transform.to_rfi: no default handling for %s' % p)
        oks, vals = True, []
        for a in assigns:
            under = [x for x in fn.ancestors(a) if isinstance(x, ast.If) and _none_conj(x.test, v)
                     and fn.in_body_of(a, x, 'body')]
            oks = oks and bool(under)
            nf = sym.norm(a.value)
            if nf == sym.norm('%s.%s(%s)' % (data, accessor, ch)):
                vals.append('sample')
            elif fallback is not None and nf == ('num', fallback):
                vals.append('fallback')
            else:
                vals.append(sym.show(nf))
                oks = False
        oks = oks and 'sample' in vals and (fallback is None or 'fallback' in vals)
        fn.ob('NULLDEFAULT', 'explicit %s wins; the sample\'s own setting of the same channel is used only when it is None%s'
              % (p, ' (1 when the sample has none)' if fallback else ''), oks, assigns[0],
              detail='' if oks else 'assignments to %s: %s' % (v, vals), key='default-' + p)
        if fallback is None:
            # without a sample to ask, a missing setting is refused
            blk = [x for x in fn.stmts(ast.If, loop) if is_none_test(x.test, v)]
            ok = bool(blk) and 'ValueError' in raised_types(blk[0].body)
            fn.ob('NULLDEFAULT', 'missing %s without a sample is refused' % p, ok, blk[0] if blk else loop,
                  key='refuse-' + p)
    # a None gain from the sample falls back to 1 as well
    v = roles['amplifier_gain']
    inner = [x for x in fn.stmts(ast.If, loop) if _none_conj(x.test, v)]
    fn.ob('NULLDEFAULT', 'gain unspecified by caller and sample means gain 1', len(inner) >= 2, inner[0] if inner else loop,
          detail='' if len(inner) >= 2 else 'no nested `if %s is None: %s = 1.`' % (v, v), key='gain-one')


def result_var(cx, fn):
    """Name of the variable that is returned (the converted copy)."""
    rets = fn.stmts(ast.Return)
    names = {r.value.id for r in rets if isinstance(r.value, ast.Name)}
    cx.need(len(rets) >= 1 and len(names) == 1 and all(isinstance(r.value, ast.Name) for r in rets),
            '%s: does not return a single named result' % fn.qual)
    return names.pop()


def copy_def(cx, fn, var):
    """`var = data.copy().astype(np.float64)` (a fresh float copy of the input) is the only definition."""
    data = fn.params[0]
    defs = [n for n in fn.cfg.nodes if var in fn.rd.gen[n.id]]
    cx.need(len(defs) == 1, '%s: %s has %d definitions' % (fn.qual, var, len(defs)))
    v = fn.rd.assigned_value(defs[0], var)
    nf = sym.norm(v, keep_casts=True) if v is not None else None
    accepted = [sym.norm(s % data, keep_casts=True) for s in (
        '%s.copy().astype(np.float64)', '%s.astype(np.float64)', '%s.copy().astype(float)', '%s.astype(float)',
        '%s.astype(np.float64, copy=True)')]
    ok = nf in accepted
    fn.ob('WRITESET', 'result is a fresh float copy of the input', ok, defs[0].ast,
          detail='' if ok else '`%s` is not a copy of the input' % norm_stmt(defs[0].ast), key='copy')
    return defs[0]


TRANSCENDENTAL = {'np.exp', 'np.log', 'np.log10', 'np.log2', 'np.power', 'np.sqrt', 'math.pow', 'math.exp', 'math.log', 'pow'}


def scalar_path_obligations(fn, store, law_names):
    """SCALARPATH: the events of a channel are converted as an ndarray column, its two limits as
    scalars.  For a law made only of exactly rounded operations (+ - * /) both routes give the same
    bits; for a law containing a power/exponential/logarithm - or an opaque callable - the scalar
    route (C library pow) and the array route (NumPy's vectorised loop) are different routines, so the
    converted limit need not equal the converted value of an event sitting at the limit."""
    for l in law_names:
        defs = [s for s in fn.stmts(ast.Assign) if isinstance(s.targets[0], ast.Name) and s.targets[0].id == l
                and isinstance(s.value, ast.Lambda)]
        if not defs:
            fn.ob('SCALARPATH', 'limits and events of a converted channel are evaluated by the same numeric routine', False, store,
                  detail='the limits are passed to the caller-supplied curve `%s` as scalars, the events as an array column: '
                  'a curve using a power (as the library\'s own standard curves do) may give a limit that differs in the last bit '
                  'from the converted event at the limit, so the strict high/low gate stops commuting with the conversion' % l,
                  key='scalar-path|curve')
            continue
        for d in defs:
            body = d.value.body
            trans = any(isinstance(x, ast.BinOp) and isinstance(x.op, ast.Pow) for x in ast.walk(body)) or \
                any(isinstance(x, ast.Call) and dotted(x.func) in TRANSCENDENTAL for x in ast.walk(body))
            fn.ob('SCALARPATH', 'limits and events of a converted channel are evaluated by the same numeric routine', not trans, d,
                  detail='' if not trans else 'law `%s` contains a power: the limits are evaluated on Python scalars (C pow), the events '
                  'on an array column (NumPy loop); the results may differ in the last bit' % norm_stmt(d.value),
                  key='scalar-path|' + ('log-law' if trans else 'linear-law'))


def writeset(cx, fn, var, loop, chan_var, law_names, guard_test=None, scalar_path=False):
    """All stores of the function go to `var` at [:, chan_var] / ._range[chan_var] inside `loop`;
    the value stored in the column is law(var[:, chan_var]); range store is [law(R[0]), law(R[1])]."""
    data = fn.params[0]
    n_col = n_rng = 0
    col_sts, rng_sts = [], []
    for st, tgt in subscript_stores(fn):
        root = root_name(tgt)
        if root != var:
            ok = root not in fn.params
            fn.ob('WRITESET', 'no store through an argument', ok, st,
                  detail='' if ok else 'store into argument `%s`' % root, key='arg-store')
            continue
        inside = any(a is loop for a in fn.ancestors(st))
        tnf = sym.norm(tgt)
        col = sym.norm('%s[:, %s]' % (var, chan_var))
        rng = sym.norm('%s._range[%s]' % (var, chan_var))
        if tnf == col:
            n_col += 1
            want = [sym.norm('%s(%s[:, %s])' % (l, var, chan_var)) for l in law_names]
            got = sym.norm(st.value)
            ok = inside and got in want
            fn.ob('WRITESET', 'events of the loop channel are replaced by the law applied to that same column', ok, st,
                  detail='' if ok else 'column store `%s`' % norm_stmt(st), key='col-store')
            col_sts.append(st)
        elif tnf == rng:
            n_rng += 1
            want = [sym.norm('[%s(%s._range[%s][0]), %s(%s._range[%s][1])]' % (l, var, chan_var, l, var, chan_var))
                    for l in law_names]
            got = sym.norm(st.value)
            ok = inside and got in want
            fn.ob('SAMELAW', 'range limits of the loop channel go through the same law as its events', ok, st,
                  detail='' if ok else 'range store `%s`' % norm_stmt(st), key='range-store')
            rng_sts.append(st)
            if ok and scalar_path:
                scalar_path_obligations(fn, st, law_names)
        else:
            fn.ob('WRITESET', 'stores address only the loop channel (events column or its range entry)', False, st,
                  detail='store target `%s`' % norm_stmt(tgt), key='other-store')
    # BOTH: in every iteration that converts the events, the limits are converted too - except when the
    # object carries no range, or no range for that channel
    from ..rules import run_context, _abstract
    run_context(fn, fn.ast.body[0], None, resolved=False)          # computes the set of local names
    allowed = {'when ' + sym.show(_abstract(sym.norm("hasattr(%s, '_range')" % var), {}, fn._local_names)),
               'when ' + sym.show(_abstract(sym.norm('%s._range[%s] is not None' % (var, chan_var)), {}, fn._local_names))}
    tests = [(ast.parse("hasattr(%s, '_range')" % var, mode='eval').body, True),
             (ast.parse('%s._range[%s] is not None' % (var, chan_var), mode='eval').body, True)]
    allowed0 = allowed
    for c_st in col_sts:
        for r_st in rng_sts:
            for reading in (False, True, 'temps'):
                cc = set(run_context(fn, c_st, None, resolved=reading) or [])
                rc = set(run_context(fn, r_st, None, resolved=reading) or [])
                # the two excepted tests in this reading's own spelling (as they would read at the range store)
                allowed = (set(run_context(fn, c_st, None, resolved=reading, extra_tests=tests) or []) - cc) if reading else allowed0
                extra = sorted((rc - cc) - allowed)
                lost = sorted(cc - rc)
                ok = not extra and not lost and allowed <= rc
                if ok:
                    break
            fn.ob('SAMELAW', 'whenever the events of a channel are converted its limits are converted too (unless it has no range)', ok, r_st,
                  detail='' if ok else 'the range update %s' % (('additionally runs only ' + ' & '.join(extra)) if extra else
                                                              ('does not share the conditions of the event update: ' + ' & '.join(lost + sorted(allowed - rc)))),
                  key='both')
    return n_col, n_rng


TO_RFI_STEPS = [
    ('no channels given means all channels', 'if channels is None:'),
    ('... all channels', 'channels = range(data.shape[1])'),
    ('a single channel and its settings are wrapped into one-element lists',
     "if not (hasattr(channels, '__iter__') and not isinstance(channels, six.string_types)):"),
    ('... channel', 'channels = [channels]'),
    ('... amplification type', 'amplification_type = [amplification_type]'),
    ('... gain', 'amplifier_gain = [amplifier_gain]'),
    ('... resolution', 'resolution = [resolution]'),
    ('missing amplification types: one None per channel', 'amplification_type = [None] * len(channels)'),
    ('missing gains: one None per channel', 'amplifier_gain = [None] * len(channels)'),
    ('missing resolutions: one None per channel', 'resolution = [None] * len(channels)'),
    ('names become positions when the sample can translate them', "if hasattr(data, '_name_to_index'):"),
    ('... translation', 'channels = data._name_to_index(channels)'),
    ('work on a float copy', 'RV = data.copy().astype(np.float64)'),
    ('channels and settings are paired in order', 'for CH, R, AT, AG in zip(channels, resolution, amplification_type, amplifier_gain):'),
    ('amplification type of the sample for this channel', 'AT = data.amplification_type(CH)'),
    ('linear amplifier iff the number of decades is 0', 'if AT[0] == 0:'),
    ('gain of the sample for this channel', 'AG = data.amplifier_gain(CH)'),
    ('unspecified gain is 1', 'AG = 1.0'),
    ('unspecified gain is 1', 'AG = 1.0'),
    ('linear law', 'TF = lambda x: x / AG'),
    ('resolution of the sample for this channel', 'R = data.resolution(CH)'),
    ('log law', 'TF = lambda x: AT[1] * 10 ** (AT[0] / float(R) * x)'),
    ('events converted', 'RV[:, CH] = TF(RV[:, CH])'),
    ('limits converted', 'RV._range[CH] = [TF(RV._range[CH][0]), TF(RV._range[CH][1])]'),
    ('the copy is returned', 'return RV'),
]

TO_MEF_STEPS = [
    ('no curve channels given: the curves are for all channels in order', 'if sc_channels is None:'),
    ('... all channels (a 1-D array has one event)', 'sc_channels = range(data.shape[0]) if data.ndim == 1 else range(data.shape[1])'),
    ('unequal numbers of curves and channels refused', 'if len(sc_channels) != len(sc_list):'),
    ('curve channels become positions when the sample can translate them', "if hasattr(data, '_name_to_index'):"),
    ('... translation', 'sc_channels = data._name_to_index(sc_channels)'),
    ('no channels given: all channels with a curve', 'if channels is None:'),
    ('... the curve channels', 'channels = sc_channels'),
    ('a single requested channel is wrapped', "if not (hasattr(channels, '__iter__') and not isinstance(channels, six.string_types)):"),
    ('... wrapped', 'channels = [channels]'),
    ('requested channels become positions', "CI = data._name_to_index(channels) if hasattr(data, '_name_to_index') else channels"),
    ('every requested channel is looked up among the curve channels', 'for CHI0, CHS in zip(CI, channels):'),
    ('... refused when it has no curve', 'if CHI0 not in sc_channels:'),
    ('work on a float copy', 'RV = data.copy().astype(np.float64)'),
    ('curve channels and curves are paired in order', 'for CHI, SC in zip(sc_channels, sc_list):'),
    ('channels that were not requested are skipped', 'if CHI not in CI:'),
    ('events converted', 'RV[:, CHI] = SC(RV[:, CHI])'),
    ('limits converted', 'RV._range[CHI] = [SC(RV._range[CHI][0]), SC(RV._range[CHI][1])]'),
    ('the copy is returned', 'return RV'),
]


def to_rfi_steps(cx, fn):
    from ..rules import inventory
    return inventory(fn, 'STEPS', TO_RFI_STEPS, ['RV', 'CH', 'R', 'AT', 'AG', 'TF'],
                     rebind_ok=('channels', 'amplification_type', 'amplifier_gain', 'resolution'))


def to_mef_steps(cx, fn):
    from ..rules import inventory
    metas = {m: m for m in ['RV', 'CI', 'CHS', 'SC']}
    metas['CHI'] = 'CHI'
    metas['CHI0'] = 'CHI'
    return inventory(fn, 'STEPS', TO_MEF_STEPS, metas, rebind_ok=('channels', 'sc_channels'))


def to_rfi_all(cx, want=('SIB', 'FORMULA', 'NULLDEFAULT', 'WRITESET', 'SAMELAW', 'PAIR')):
    fn = Fn(cx, 'transform.to_rfi')
    to_rfi_steps(cx, fn)
    loop, roles = to_rfi_roles(cx, fn)
    if 'SIB' in want:
        to_rfi_sib(cx, fn)
    tf = None
    if 'FORMULA' in want or 'WRITESET' in want or 'SAMELAW' in want:
        _, _, tf = to_rfi_laws(cx, fn)
    if 'NULLDEFAULT' in want:
        to_rfi_defaults(cx, fn)
    if 'PAIR' in want:
        check_order(fn, 'PAIR', 'channel list keeps the caller\'s order between the length checks and the pairing with the settings',
                    'channels', loop, 'channels')
        for p in ROLE_PARAMS:
            check_order(fn, 'PAIR', '%s list is paired as given' % p, p, loop, p,
                        extra_ok=('[None]*len(channels)',))
    if 'WRITESET' in want or 'SAMELAW' in want:
        RV = result_var(cx, fn)
        copy_def(cx, fn, RV)
        nc, nr = writeset(cx, fn, RV, loop, roles['channels'], [tf], scalar_path='SCALARPATH' in want)
        cx.floor('WRITESET', nc, 1, 'column stores in to_rfi')
        if 'SAMELAW' in want:
            cx.floor('SAMELAW', nr, 1, 'range stores in to_rfi')
        ret = fn.stmts(ast.Return)
        ok = len(ret) == 1 and sym.norm(ret[0].value) == ('var', RV)
        fn.ob('WRITESET', 'the copy is what is returned', ok, ret[0] if ret else fn.ast, key='return')
    return fn


def _has(fn, name):
    return any(name in fn.rd.gen[n.id] for n in fn.cfg.nodes)


# ---------------------------------------------------------------------------
# to_mef

def to_mef_all(cx, want=('GUARD', 'PAIR', 'WRITESET', 'SAMELAW')):
    fn = Fn(cx, 'transform.to_mef')
    to_mef_steps(cx, fn)
    data = fn.params[0]
    loops = [(f, p) for f, p in zip_loops(fn) if [dotted(a) for _, a in p] == ['sc_channels', 'sc_list']]
    cx.need(len(loops) == 1, 'transform.to_mef: expected one loop over zip(sc_channels, sc_list)')
    loop, pairs = loops[0]
    chi, sc = pairs[0][0], pairs[1][0]
    RV = result_var(cx, fn)
    cdef = copy_def(cx, fn, RV)
    # position form of the requested channels: defined as data._name_to_index(channels) (or channels itself for plain arrays)
    ci = [st.targets[0].id for st in fn.stmts(ast.Assign) if isinstance(st.targets[0], ast.Name)
          and sym.norm(st.value) in (sym.norm('%s._name_to_index(channels)' % data),
                                     sym.norm("%s._name_to_index(channels) if hasattr(%s, '_name_to_index') else channels" % (data, data)))]
    cx.need(len(ci) == 1, 'transform.to_mef: no `<x> = data._name_to_index(channels)`')
    CI = ci[0]
    if 'GUARD' in want:
        gs = guards(fn, mentions=lambda t: {'sc_channels', 'sc_list'} <= names_in(t), exc=['ValueError'])
        ok = bool(gs)
        if gs:
            g, passing = gs[0]
            ok = (not passing) and sym.norm(g.test) == sym.norm('len(sc_channels) != len(sc_list)') \
                and guard_dominates(fn, g, passing, loop) and guard_dominates(fn, g, passing, cdef.ast)
        fn.ob('GUARD', 'different numbers of curves and channels are refused before pairing', ok,
              gs[0][0] if gs else fn.ast, detail='' if ok else 'no dominating `len(sc_channels) != len(sc_list)` refusal',
              key='len-refusal')
        # coverage: every requested channel must have a curve, decided per requested channel
        cov = None
        for f in fn.stmts(ast.For):
            if f is loop:
                continue
            tn = target_names(f.target)
            if CI in names_in(f.iter):
                for st in f.body:
                    if isinstance(st, ast.If) and always_raises(st.body) and 'ValueError' in raised_types(st.body):
                        for t in tn:
                            if sym.norm(st.test) == sym.norm('%s not in sc_channels' % t):
                                cov = (f, st)
        ok = cov is not None and fn.cfg.dominates(fn.node(cov[0]), cdef) and fn.cfg.dominates(fn.node(cov[0]), fn.node(loop))
        if cov is not None:
            # the loop really iterates the requested channel indices (first zip arg or the list itself)
            it = cov[0].iter
            okit = (isinstance(it, ast.Name) and it.id == CI) or \
                (isinstance(it, ast.Call) and dotted(it.func) == 'zip' and it.args and dotted(it.args[0]) == CI
                 and isinstance(cov[0].target, ast.Tuple) and sym.norm(cov[1].test) ==
                 sym.norm('%s not in sc_channels' % cov[0].target.elts[0].id))
            ok = ok and okit
        fn.ob('GUARD', 'a requested channel without a curve raises (for each requested channel) before any conversion',
              ok, cov[1] if cov else fn.ast, detail='' if ok else 'no per-channel `if chi not in sc_channels: raise ValueError` '
              'loop dominating the copy', key='coverage')
        # channels_ind is the index form of the requested channels; default request = all curves' channels
        check_order(fn, 'PAIR', 'requested channels are translated to positions without re-ordering', CI,
                    cdef.ast, ('channels', 'sc_channels'), extra_ok=())
    if 'PAIR' in want:
        check_order(fn, 'PAIR', 'curve channels keep the order in which the curves were listed', 'sc_channels', loop,
                    'sc_channels', extra_ok=())
        ok, why = order_preserving_defs(fn, 'sc_list', loop, 'sc_list')
        fn.ob('PAIR', 'curve list is paired as given', bool(ok), loop, detail=why or '', key='sc_list-order')
        # name/position spelling: sc_channels translated through _name_to_index when the sample offers it
        tr = [c for c in fn.calls() if isinstance(c.func, ast.Attribute) and c.func.attr == '_name_to_index']
        args = sorted(dotted(c.args[0]) or '?' for c in tr if c.args)
        ok = args == ['channels', 'sc_channels']
        fn.ob('PAIR', 'both the curve channels and the requested channels are translated from names to positions', ok,
              tr[0] if tr else fn.ast, detail='' if ok else 'translated: %s' % args, key='translate-both')
    if 'WRITESET' in want or 'SAMELAW' in want:
        nc, nr = writeset(cx, fn, RV, loop, chi, [sc], scalar_path='SCALARPATH' in want)
        cx.floor('WRITESET', nc, 1, 'column stores in to_mef')
        if 'SAMELAW' in want:
            cx.floor('SAMELAW', nr, 1, 'range stores in to_mef')
        # stores only for requested channels
        skip = [st for st in loop.body if isinstance(st, ast.If)
                and sym.norm(st.test) == sym.norm('%s not in %s' % (chi, CI))
                and len(st.body) == 1 and isinstance(st.body[0], ast.Continue)]
        sel = [st for st in loop.body if isinstance(st, ast.If) and sym.norm(st.test) == sym.norm('%s in %s' % (chi, CI))]
        for st, tgt in subscript_stores(fn, loop):
            if skip:
                ok = fn.cfg.dominates(fn.cfg.assume[id(skip[0])][1], fn.node(st))
            elif sel:
                ok = fn.cfg.dominates(fn.cfg.assume[id(sel[0])][0], fn.node(st))
            else:
                ok = False
            fn.ob('WRITESET', 'only requested channels are converted', ok, st,
                  detail='' if ok else 'store not guarded by membership of the channel in the request', key='requested-only')
        ret = fn.stmts(ast.Return)
        ok = len(ret) == 1 and sym.norm(ret[0].value) == ('var', RV)
        fn.ob('WRITESET', 'the copy is what is returned', ok, ret[0] if ret else fn.ast, key='return')
    return fn


# ---------------------------------------------------------------------------
# transform()

def transform_all(cx):
    fn = Fn(cx, 'transform.transform')
    RV = result_var(cx, fn)
    copy_def(cx, fn, RV)
    f = 'transform_fxn'
    stores = subscript_stores(fn)
    ncol = nrng = 0
    for st, tgt in stores:
        tnf = sym.norm(tgt)
        if tnf == sym.norm('%s[:, channels]' % RV):
            ncol += 1
            ok = sym.norm(st.value) == sym.norm('%s(%s[:, channels])' % (f, RV))
            fn.ob('WRITESET', 'events of the chosen channels are replaced by the law applied to those same columns', ok, st,
                  key='col-store')
        elif isinstance(tgt, ast.Subscript) and sym.norm(tgt.value) == sym.norm('%s._range' % RV):
            nrng += 1
            idx = tgt.slice
            ok = sym.norm(st.value) == sym.norm('%s(%s._range[IDX])' % (f, RV), env={'IDX': sym.norm(idx)})
            # IDX is the position of a channel drawn from the same `channels`
            loop = [a for a in fn.ancestors(st) if isinstance(a, ast.For)]
            ok = ok and bool(loop) and sym.norm(loop[0].iter) == ('var', 'channels')
            if ok and isinstance(idx, ast.Name):
                vals = [v for d, v in fn.reaching_values(idx.id, st)]
                lv = target_names(loop[0].target)
                ok = len(vals) == 1 and vals[0] is not None and lv and \
                    sym.norm(vals[0]) == sym.norm('%s._name_to_index(%s)' % (RV, lv[0]))
            fn.ob('SAMELAW', 'range of every transformed channel goes through the same law as its events', ok, st,
                  detail='' if ok else 'range store `%s`' % norm_stmt(st), key='range-store')
        else:
            fn.ob('WRITESET', 'stores address only the chosen channels', False, st, detail=norm_stmt(st), key='other-store')
    cx.floor('WRITESET', ncol, 1, 'column stores in transform')
    cx.floor('SAMELAW', nrng, 1, 'range stores in transform')
    return fn
