"""Rules on FlowCal.gate shared between properties."""
import ast

from .. import sym
from ..rules import Fn, guards, guard_dominates, names_in


def fraction_refusal(cx, rule='GUARD'):
    """gate.density2d refuses a gate fraction outside [0, 1] (ValueError) before the fraction is used:
    the one refusal mentioning only the fraction has the test `f < 0 or f > 1` and dominates every use."""
    fn = Fn(cx, 'gate.density2d')
    gs = guards(fn, mentions=lambda t: names_in(t) == {'gate_fraction'}, exc=['ValueError'])
    uses = [n for n in fn.walk() if isinstance(n, ast.Name) and n.id == 'gate_fraction' and isinstance(n.ctx, ast.Load)
            and not any(any(n is x for x in ast.walk(g[0].test)) for g in gs)]
    ok = len(gs) == 1 and not gs[0][1] and sym.norm(gs[0][0].test) == sym.norm('gate_fraction < 0 or gate_fraction > 1') \
        and bool(uses) and all(guard_dominates(fn, gs[0][0], False, u) for u in uses)
    fn.ob(rule, 'a gate fraction outside [0, 1] is refused (ValueError) before it enters the target count', ok, gs[0][0] if gs else fn.ast,
          detail='' if ok else 'refusal must be `gate_fraction < 0 or gate_fraction > 1` and dominate every use', key='fraction')
    return fn
