"""FIGURE: every documented figure file is written when plots are requested.

Structural part decided here: (a) every plotting function that takes `savefig` ends with the same
save block, executed exactly when a file name is given; (b) the calibration workflow and the two
Excel table processors call the documented plotting function with the documented file name, under
the documented conditions (CONTEXT: frozen run conditions, e.g. one / two / three-or-more clustering
channels); (c) the plot directories are created before use."""
import ast

from .. import sym
from ..core import AnalysisError, norm_stmt
from ..rules import Fn, inventory, if_chain

GTF = 'mef.get_transform_fxn'

GTF_FIG_ITEMS = [
    ('the plot directory is created when missing', 'os.makedirs(plot_dir)'),
    ('... only when plotting into a directory that does not exist', 'if plot and plot_dir is not None:'),
    ('... (existence test)', 'if not os.path.exists(plot_dir):'),
    ('figure names default to the name of the beads sample', 'plot_filename = str(data_beads)'),
    ('clustering figure file <dir>/clustering_<name>.png; no file without a directory',
     "SF = '{}/clustering_{}.png'.format(plot_dir, plot_filename) if plot_dir is not None else None"),
    ('one clustering channel: histogram', "FlowCal.plot.hist1d(POPS, channel=clustering_channels[0], xscale='logicle', bins=256, alpha=0.75, savefig=SF)"),
    ('two clustering channels: 2D scatter', "FlowCal.plot.scatter2d(POPS, channels=clustering_channels, xscale='logicle', yscale='logicle', savefig=SF)"),
    ('three or more clustering channels: 3D scatter of the first three',
     "FlowCal.plot.scatter3d_and_projections(POPS, channels=clustering_channels[:3], xscale='logicle', yscale='logicle', zscale='logicle', savefig=SF)"),
    ('per channel: histogram of the populations', "FlowCal.plot.hist1d(POPS, channel=MCH, xscale='logicle', bins=256, alpha=0.75, facecolor=COL)"),
    ('per channel: populations figure file <dir>/populations_<channel>_<name>.png',
     "plt.savefig('{}/populations_{}_{}.png'.format(plot_dir, MCH, plot_filename), dpi=FlowCal.plot.savefig_dpi)"),
    ('per channel: standard curve figure', "plot_standard_curve(SRFI, SMEF, BM, SC, xscale='log', yscale='log', xlim=XL)"),
    ('per channel: standard curve figure file <dir>/std_crv_<channel>_<name>.png',
     "plt.savefig('{}/std_crv_{}_{}.png'.format(plot_dir, MCH, plot_filename), dpi=FlowCal.plot.savefig_dpi)"),
]
GTF_FIG_METAS = ['SF', 'POPS', 'MCH', 'COL', 'SRFI', 'SMEF', 'BM', 'SC', 'XL']


def calibration_figures(cx):
    from .mef_rules import channel_loop
    fn = Fn(cx, GTF)
    loop, pairs = channel_loop(cx, fn)
    inventory(fn, 'FIGURE', GTF_FIG_ITEMS, GTF_FIG_METAS, fixed={'MCH': pairs[0][0]},
              rebind_ok=('plot_filename', 'clustering_channels', 'mef_channels'))
    return fn


def table_figures(cx, qual, kind):
    """process_beads_table / process_samples_table: directory creation, file name, plotting call."""
    from . import excel_rules as E
    fn = Fn(cx, qual)
    lp, rid, row, tr = E.row_loop(cx, fn)
    name = "'density_hist_{}.png'.format(%s)" % rid if kind == 'beads' else "'{}.png'.format(%s)" % rid
    items = [
        ('the plot directory (relative to the workbook) is created when missing', 'os.makedirs(os.path.join(base_dir, plot_dir))'),
        ('... only when plotting into a directory that does not exist',
         'if plot and plot_dir is not None and not os.path.exists(os.path.join(base_dir, plot_dir)):'),
        ('figure file of the row: named after the row identifier, in the plot directory; no file without a directory',
         'FIG = os.path.join(base_dir, plot_dir, %s) if plot_dir is not None else None' % name),
    ]
    if kind == 'beads':
        items.append(('density plot of the gate and histograms of the clustering channels',
                      'FlowCal.plot.density_and_hist(S, G, density_channels=SC, hist_channels=CC, gate_contour=GC, density_params=DP, '
                      'hist_params=HP, savefig=FIG)'))
        metas = ['FIG', 'S', 'G', 'SC', 'CC', 'GC', 'DP', 'HP']
    else:
        items.append(('density plot of the gate and histograms of the reported channels',
                      'FlowCal.plot.density_and_hist(S, G, gate_contour=GC, density_channels=SC, density_params=DP, hist_channels=RC, '
                      'hist_params=HP, savefig=FIG)'))
        metas = ['FIG', 'S', 'G', 'SC', 'RC', 'GC', 'DP', 'HP']
    inventory(fn, 'FIGURE', items, metas)
    return fn


SAVE_BLOCK = [
    ('layout tightened', 'plt.tight_layout()'),
    ('file written at the package resolution', 'plt.savefig(savefig, dpi=savefig_dpi)'),
    ('figure closed after saving', 'plt.close()'),
]


def save_blocks(cx):
    """Every plotting function taking `savefig` has one `if savefig is not None:` block, as a statement of
    the function body itself (so it runs whatever was plotted), consisting of layout, save, close."""
    mod = cx.repo.mod('plot')
    n = 0
    for q, f in sorted(mod.funcs.items()):
        if '<locals>' in q or 'savefig' not in [a.arg for a in f.args.args]:
            continue
        fn = Fn(cx, 'plot.' + q)
        n += 1
        blocks = [s for s in fn.ast.body if isinstance(s, ast.If) and sym.norm(s.test) == sym.norm('savefig is not None')]
        ok = len(blocks) == 1 and not blocks[0].orelse
        got = [sym.stmt_nf(s) for s in blocks[0].body] if blocks else []
        want = [sym.parse_pattern(p) for _, p in SAVE_BLOCK]
        ok = ok and got == want
        fn.ob('FIGURE', 'the figure is laid out, written to the given file and closed exactly when a file name is given', ok,
              blocks[0] if blocks else fn.ast, detail='' if ok else 'save block: %s' % [norm_stmt(s) for s in (blocks[0].body if blocks else [])],
              key='save-block')
        reb = [nd for nd in fn.cfg.nodes if nd.kind != 'entry' and 'savefig' in fn.rd.gen[nd.id]]
        fn.ob('FIGURE', 'the file name is used as given', not reb, reb[0].ast if reb else fn.ast, key='savefig-param')
        if blocks:
            fn.ctx_ob('FIGURE', 'save block', blocks[0])
    cx.floor('FIGURE', n, 8, 'plotting functions with a savefig argument')


DAH_ITEMS = [
    ('a single histogram channel is a one-element list', "if not hasattr(hist_channels, '__iter__'):"),
    ('... wrapped', 'hist_channels = [hist_channels]'),
    ('one set of histogram parameters applies to every histogram', 'if isinstance(hist_params, dict):'),
    ('... repeated per channel', 'hist_params = [hist_params] * len(hist_channels)'),
    ('a density plot is drawn iff density channels are given', 'PD = not (density_channels is None)'),
    ('number of panels = density plot + one per histogram channel', 'NP = PD + len(hist_channels)'),
    ('default height grows with the number of panels', 'H = 0.315 + 2.935 * NP'),
    ('default figure size', 'figsize = (6, H)'),
    ('... only when none is given', 'if figsize is None:'),
    ('figure created', 'plt.figure(figsize=figsize)'),
    ('density panel is the first one', 'plt.subplot(NP, 1, 1)'),
    ('density diagram of the chosen channels with the caller\'s parameters', 'density2d(data, channels=density_channels, **density_params)'),
    ('every gate contour is drawn', 'for G in gate_contour:'),
    ('... as a black line', "plt.plot(G[:, 0], G[:, 1], color='k', linewidth=1.25)"),
    ('one colour per histogram', 'NC = NP - 1'),
    ('colours come from the endless default property cycle (never exhausted)', "CYC = plt.rcParams['axes.prop_cycle']()"),
    ('... one draw per histogram', "COL = [next(CYC)['color'] for I in range(NC)]"),
    ('every histogram channel gets its panel', 'for I2, HC in enumerate(hist_channels):'),
    ('... after the density panel', 'plt.subplot(NP, 1, PD + I2 + 1)'),
    ('histogram parameters of this channel are copied before defaults are added', 'HP = hist_params[I2].copy()'),
    ('default colour of this histogram', "HP['facecolor'] = COL[I2]"),
    ('... only when the caller gave none', "if 'facecolor' not in HP:"),
    ('ungated histogram (half transparent) when gated data are given', 'hist1d(data, channel=HC, alpha=0.5, **HP)'),
    ('gated histogram on top', 'hist1d(gated_data, channel=HC, alpha=1.0, **HP)'),
    ('ungated histogram alone otherwise', 'hist1d(data, channel=HC, **HP)'),
]


def density_and_hist_steps(cx):
    fn = Fn(cx, 'plot.density_and_hist')
    metas = {m: m for m in ['PD', 'NP', 'H', 'G', 'NC', 'CYC', 'COL', 'HC', 'HP']}
    metas['I'] = 'I'
    metas['I2'] = 'I'
    inventory(fn, 'FIGURE', DAH_ITEMS, metas, rebind_ok=('hist_channels', 'hist_params', 'figsize', 'density_params'))
    return fn


def run_all(cx):
    from . import excel_rules as E
    calibration_figures(cx)
    table_figures(cx, E.BEADS, 'beads')
    table_figures(cx, E.SAMPLES, 'samples')
    save_blocks(cx)
    density_and_hist_steps(cx)
