"""C11 - in a batch, a failing row is reported in place and does not affect other rows."""
from . import excel_rules as E


def run(cx):
    E.exc_discipline(cx, E.BEADS)
    E.exc_discipline(cx, E.SAMPLES)
    E.fault_table(cx)
    E.empty_table(cx, E.BEADS)
    E.empty_table(cx, E.SAMPLES)
    from . import gate_rules
    gate_rules.fraction_refusal(cx, 'EXC')      # the source of the gate-fraction fault
    E.units_dispatch(cx)
    E.loop_independence(cx, E.BEADS)
    E.loop_independence(cx, E.SAMPLES)
    # nothing a row leaves behind in module-level state can reach a later row
    from . import mef_rules
    mef_rules.no_module_state(cx, ('io', 'transform', 'gate', 'stats', 'mef', 'plot', 'excel_ui'))
    n = 0
    for q, d in (('excel_ui.add_beads_stats', 'beads_samples'), ('excel_ui.add_samples_stats', 'samples'),
                 ('excel_ui.generate_histograms_table', 'samples')):
        _, k = E.union_discipline(cx, q, d)
        n += k
    cx.floor('UNION', n, 20, 'uses of row results')
    E.error_rows_rendered(cx, 'excel_ui.add_beads_stats', 'beads_samples')
    E.error_rows_rendered(cx, 'excel_ui.add_samples_stats', 'samples')
    cx.floor('EXC', cx.rules.get('EXC', 0), 25, 'exception discipline obligations')
    cx.decided += [
        'each row loop body is one try with exactly one handler for the row-level error that records the error under the row id and continues',
        'every row gets exactly one entry per result dictionary on the error path and on the normal path; dictionaries start empty (ordered) and an empty table returns them empty',
        'each documented fault (file not found, <400 events, gate fraction, units, missing calibration, missing curve, instrument, amplifier, detector voltage, MEF count) has its raise site / converting handler of the documented shape inside the try',
        'converting handlers only read attributes that exist on the caught exception class (they cannot fault and abort the batch)',
        'no loop-carried state: every per-row value is definitely assigned in the row before it is read; nothing created before the loop is modified or rebound in it',
        'no function of the package writes module-level state (caches, registries): a row cannot influence a later one through the library',
        'an empty table returns what a processed table returns, case by case (full_output or not)',
        'error rows are discriminated by type before every use as a sample; they get an ERROR: note and empty statistics',
    ]
    cx.not_decided += ['implicit library exceptions on malformed files (not documented row faults)']
