"""C04 - channel metadata stays aligned with columns under every indexing expression."""
from . import fcsdata_rules as R
from . import kinds


def run(cx):
    from ..rules import exits_of
    exits_of(cx, 'EXITS', ['io.FCSData.__getitem__', 'io.FCSData.__setitem__', 'io.FCSData._name_to_index'])
    A, mutable = R.attrset(cx)
    R.getitem_branches(cx)
    R.name_to_index_shape(cx)
    R.accessors(cx)
    itp, rows = kinds.run_table(cx)
    kinds.setitem_agreement(cx, itp)
    cx.decided += [
        'per-channel attribute set identical in constructor, __array_finalize__, pickle state and the three __getitem__ branches',
        'each branch restricts every per-channel attribute of the same object with the branch\'s channel key, keeping the container kind',
        'abstract evaluation of __getitem__/_name_to_index over all index kinds (int classes relative to the channel count, NumPy integers, bool, names, slice, Ellipsis, None, float, lists/tuples/arrays of them) x event kinds: every kind is refused or reaches the branch whose meaning is NumPy\'s',
        'unknown names and out-of-range positions raise; a single value is returned before metadata is touched',
        '__setitem__ translates keys exactly as __getitem__ and refuses the same kinds',
        'accessors return the attribute of exactly the asked channels in order',
    ]
    cx.not_decided += ['value equality with plain array indexing: the translated key is handed to ndarray.__getitem__/__setitem__ (NumPy itself)',
                       'pairing of an advanced row index with an advanced column index (tabulated, not armed)']
    cx.assumptions += ['channel names are duplicate free (tuple.index finds the first)']
