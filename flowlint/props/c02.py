"""C02 - bead calibration end to end yields the true RFI-to-MEF conversion."""
from . import mef_rules as M


def run(cx):
    M.calibration_workflow(cx)
    M.clustering(cx)
    M.selection(cx)
    M.transform_assembly(cx)
    M.fit_model(cx)
    from . import transform_rules as T
    T.to_mef_all(cx, want=('GUARD', 'PAIR', 'WRITESET'))     # the generated transformation is to_mef with the fitted curves
    M.no_module_state(cx, ('mef',), extra=('plot._LogicleTransform.__init__', 'plot._LogicleTransform.transform_non_affine', 'plot._InterpolatedInverseTransform.__init__', 'plot._InterpolatedInverseTransform.transform_non_affine'))
    cx.decided += [
        'groups are formed by label equality (one label per event), ordered by increasing squared distance of their mean to the origin before values are paired, and never re-ordered afterwards',
        'the exclusion mask of a channel combines the selection with the unknown values of THAT channel only; RFI and MEF selections use the same mask',
        'each accumulator receives exactly one entry per calibrated channel; intermediate results reported are the ones computed',
        'clustering initialisation (quantile slices, regularised covariances on every path), label sampling; selection thresholds at 1.5%/98.5% of the scaled range with strict comparisons',
        'only np.random.choice (legacy global generator) and an unseeded GaussianMixture are used: reproducible under np.random.seed',
        'no function of FlowCal.mef (nor the logicle scaling it uses) writes module-level state: a calibration cannot depend on earlier calls',
    ]
    cx.not_decided += ['clustering quality, grouping by generating subpopulation, the 10% bound (numerical behaviour of EM and L-BFGS-B)']
