"""C12 - summary statistics equal their definitions for any container and channel form.

SIB (shared slicing prelude), FORMULA/IDENT (normal forms of the reductions and identities),
RANK (abstract rank of the result = rank of the sliced data - 1, using the installed scipy
signature), KINDS (basic-index kinds NumPy reductions use are accepted by FCSData.__getitem__), API."""
import ast
import inspect

from ..core import AnalysisError, norm_stmt
from ..rules import Fn, names_in, kwarg, is_none_test
from .. import sym, extapi
from ..sym import dotted

STATS = ['mean', 'gmean', 'median', 'mode', 'std', 'cv', 'gstd', 'gcv', 'iqr', 'rcv']

X = 'X'
SPEC = {
    'mean': 'np.mean(X, axis=0)',
    'gmean': 'scipy.stats.gmean(X, axis=0)',
    'median': 'np.median(X, axis=0)',
    'std': 'np.std(X, axis=0)',
    'cv': 'np.std(X, axis=0) / np.mean(X, axis=0)',
    'gstd': 'np.exp(np.std(np.log(X), axis=0))',
    'gcv': 'np.sqrt(np.exp(np.std(np.log(X), axis=0)**2) - 1)',
    'iqr': 'np.percentile(X, [75, 25], axis=0)[0] - np.percentile(X, [75, 25], axis=0)[1]',
    'rcv': '(np.percentile(X, [75, 25], axis=0)[0] - np.percentile(X, [75, 25], axis=0)[1]) / np.median(X, axis=0)',
}
PRELUDE = "S = data if channels is None else data[:, channels]\n"


def prelude(cx, fn):
    """Find the slicing prelude; returns the name of the sliced-data variable."""
    cand = [st for st in fn.ast.body if isinstance(st, ast.Assign) and isinstance(st.value, ast.IfExp)
            and isinstance(st.targets[0], ast.Name)]
    ifs = [st for st in fn.ast.body if isinstance(st, ast.If)]
    if not cand:
        # not in canonical conditional-expression form: report against the documented shape
        st = ifs[0] if ifs else fn.ast
        fn.ob('SIB', 'statistic is taken from the whole data when no channel is given, else from data[:, channels]', False, st,
              detail='no `S = data if channels is None else data[:, channels]` prelude', key='prelude')
        tgt = None
        for a in ast.walk(st):
            if isinstance(a, ast.Assign) and isinstance(a.targets[0], ast.Name):
                tgt = a.targets[0].id
                break
        cx.need(tgt, '%s: no slicing prelude' % fn.qual)
        return tgt, st
    st = cand[0]
    tgt = st.targets[0].id
    got = sym.norm_block([st], {tgt: ('var', '<S>')})
    want = sym.norm_block(sym.parse_block(PRELUDE), {'S': ('var', '<S>')})
    ok = got == want and fn.params[:2] == ['data', 'channels'] and \
        isinstance(fn.default_of('channels'), ast.Constant) and fn.default_of('channels').value is None
    fn.ob('SIB', 'statistic is taken from the whole data when no channel is given, else from data[:, channels]', ok, st,
          detail='' if ok else 'prelude is `%s ...`' % norm_stmt(st), key='prelude')
    # nothing else defines the sliced variable
    defs = [n for n in fn.cfg.nodes if tgt in fn.rd.gen[n.id]]
    fn.ob('SIB', 'sliced data are not redefined after the prelude', len(defs) == 1, st, key='prelude-unique')
    return tgt, st


# ---------------------------------------------------------------------------
# RANK: abstract interpretation with symbolic rank rho of the sliced data

class Rank(object):
    """rank values: ('r', k) meaning rho + k ; ('tuple', [ranks]) ; ('obj', name) ; None unknown"""


def mode_keepdims_default():
    obj, err = extapi.resolve('scipy.stats.mode')
    if err:
        raise AnalysisError('scipy.stats.mode not resolvable: %s' % err)
    sig = inspect.signature(obj)
    p = sig.parameters.get('keepdims')
    return (p.default if p is not None else True), str(sig)


def rank_of(fn, e, env):
    """Abstract rank of expression e.  env: name -> rank value."""
    REDUCE = {'np.mean', 'np.median', 'np.std', 'np.var', 'np.sum', 'np.min', 'np.max', 'np.prod',
              'np.nanmean', 'np.nanmedian', 'np.nanstd', 'scipy.stats.gmean', 'np.percentile', 'np.quantile'}
    ELEM = {'np.log', 'np.exp', 'np.sqrt', 'np.abs', 'np.log10', 'np.square', 'np.asarray', 'np.array'}
    if isinstance(e, ast.Name):
        if e.id in env:
            return env[e.id]
        raise AnalysisError('%s: RANK: unknown name %s' % (fn.qual, e.id))
    if isinstance(e, ast.Constant):
        return ('r', None) if isinstance(e.value, (int, float)) else None
    if isinstance(e, ast.BinOp):
        l, r = rank_of(fn, e.left, env), rank_of(fn, e.right, env)
        ks = [x[1] for x in (l, r) if x and x[0] == 'r' and x[1] is not None]
        if not ks:
            return ('r', None)
        if len(set(ks)) > 1:
            raise AnalysisError('%s: RANK: operands of different rank in `%s`' % (fn.qual, norm_stmt(e)))
        return ('r', ks[0])
    if isinstance(e, ast.UnaryOp):
        return rank_of(fn, e.operand, env)
    if isinstance(e, ast.Call):
        d = dotted(e.func)
        if d in REDUCE:
            a = rank_of(fn, e.args[0], env)
            ax = kwarg(e, 'axis', None)
            kd = kwarg(e, 'keepdims', None)
            keep = isinstance(kd, ast.Constant) and kd.value is True
            if a is None or a[0] != 'r':
                raise AnalysisError('%s: RANK: reduction over non-array' % fn.qual)
            if ax is None:
                return ('scalar-all',)            # reduces over every axis: mixes channels
            if not (isinstance(ax, ast.Constant) and ax.value == 0):
                return ('bad-axis', ast.unparse(ax))
            res = ('r', a[1] if keep else a[1] - 1)
            if d in ('np.percentile', 'np.quantile'):
                q = e.args[1] if len(e.args) > 1 else kwarg(e, 'q')
                if isinstance(q, (ast.List, ast.Tuple)):
                    return ('tuple', [res] * len(q.elts))
            return res
        if d in ELEM:
            return rank_of(fn, e.args[0], env)
        if d == 'scipy.stats.mode':
            a = rank_of(fn, e.args[0], env)
            ax = kwarg(e, 'axis', 1)
            if ax is None:
                # scipy's default axis is 0
                ax = ast.Constant(value=0)
            if not (isinstance(ax, ast.Constant) and ax.value == 0):
                return ('bad-axis', ast.unparse(ax))
            kd = kwarg(e, 'keepdims', None)
            if kd is not None and isinstance(kd, ast.Constant):
                keep = bool(kd.value)
            else:
                keep = bool(mode_keepdims_default()[0])
            res = ('r', a[1] if keep else a[1] - 1)
            return ('tuple', [res, res])       # (mode, count)
        if d == 'np.ndim':
            a = rank_of(fn, e.args[0], env)
            return ('ndim', a)
        raise AnalysisError('%s: RANK: unknown call %s' % (fn.qual, d))
    if isinstance(e, ast.Subscript):
        b = rank_of(fn, e.value, env)
        i = e.slice
        if b and b[0] == 'tuple':
            if isinstance(i, ast.Constant) and isinstance(i.value, int) and -len(b[1]) <= i.value < len(b[1]):
                return b[1][i.value]
            raise AnalysisError('%s: RANK: tuple index %s' % (fn.qual, ast.unparse(i)))
        if b and b[0] == 'r':
            if isinstance(i, ast.Constant) and isinstance(i.value, int):
                return ('r', b[1] - 1)
            raise AnalysisError('%s: RANK: array index %s' % (fn.qual, ast.unparse(i)))
        raise AnalysisError('%s: RANK: subscript of %s' % (fn.qual, b))
    if isinstance(e, ast.Attribute) and e.attr == 'ndim':
        return ('ndim', rank_of(fn, e.value, env))
    if isinstance(e, ast.Attribute) and e.attr in ('mode',):
        b = rank_of(fn, e.value, env)
        if b and b[0] == 'tuple':
            return b[1][0]
    raise AnalysisError('%s: RANK: unhandled expression `%s`' % (fn.qual, norm_stmt(e)))


def rank_run(fn, stmts, env, rets, pre=None):
    for st in stmts:
        if isinstance(st, ast.Expr):
            continue
        if st is pre and isinstance(st, ast.Assign):
            env[st.targets[0].id] = ('r', 0)          # the sliced data: symbolic rank rho
            continue
        if isinstance(st, ast.Assign) and len(st.targets) == 1:
            t = st.targets[0]
            v = rank_of(fn, st.value, env)
            if isinstance(t, ast.Name):
                env[t.id] = v
            elif isinstance(t, (ast.Tuple, ast.List)) and v and v[0] == 'tuple' and len(v[1]) == len(t.elts):
                for x, r in zip(t.elts, v[1]):
                    env[x.id] = r
            else:
                raise AnalysisError('%s: RANK: unhandled assignment `%s`' % (fn.qual, norm_stmt(st)))
        elif isinstance(st, ast.If):
            if st is pre or is_none_test(st.test, 'channels'):
                # prelude: both branches define the sliced data with symbolic rank rho
                for a in ast.walk(st):
                    if isinstance(a, ast.Assign) and isinstance(a.targets[0], ast.Name):
                        env[a.targets[0].id] = ('r', 0)
                continue
            t = st.test
            if isinstance(t, ast.Compare) and len(t.ops) == 1 and isinstance(t.ops[0], (ast.Eq, ast.NotEq)):
                l, r = rank_of(fn, t.left, env), rank_of(fn, t.comparators[0], env)
                if l and r and l[0] == 'ndim' and r[0] == 'ndim':
                    eq = l[1][1] == r[1][1]
                    taken = eq if isinstance(t.ops[0], ast.Eq) else not eq
                    rank_run(fn, st.body if taken else st.orelse, env, rets, pre)
                    continue
            raise AnalysisError('%s: RANK: unhandled test `%s`' % (fn.qual, norm_stmt(st.test)))
        elif isinstance(st, ast.Return):
            rets.append((st, rank_of(fn, st.value, env)))
            return
        else:
            raise AnalysisError('%s: RANK: unhandled statement `%s`' % (fn.qual, norm_stmt(st)))


def run(cx):
    from ..rules import exits_of
    exits_of(cx, 'EXITS', ['stats.' + f_ for f_ in ('mean', 'gmean', 'median', 'mode', 'std', 'cv', 'gstd', 'gcv', 'iqr', 'rcv')])
    nfs = {}
    keep, sig = mode_keepdims_default()
    cx.tables['scipy.stats.mode signature'] = sig
    for name in STATS:
        fn = Fn(cx, 'stats.' + name)
        S, pre = prelude(cx, fn)
        rets = fn.stmts(ast.Return)
        cx.need(len(rets) >= 1, 'stats.%s has no return' % name)
        if name in SPEC:
            cx.need(len(rets) == 1, 'stats.%s: expected one return' % name)
            got = fn.nf(rets[0].value, at=rets[0], stop=(S,))
            want = sym.norm(SPEC[name], env={'X': ('var', S)})
            ok = got == want
            nfs[name] = got
            fn.ob('FORMULA', 'stats.%s is %s over the sliced data' % (name, SPEC[name].replace('X', 'data')), ok, rets[0],
                  detail='' if ok else 'computes %s, definition is %s' % (sym.show(got), sym.show(want)), key='formula')
        else:
            # mode: a most frequent value per channel from scipy.stats.mode(X, axis=0)
            calls = fn.calls('scipy.stats.mode')
            cx.need(len(calls) == 1, 'stats.mode: expected one scipy.stats.mode call')
            c = calls[0]
            ok = len(c.args) == 1 and sym.norm(c.args[0]) == ('var', S) and \
                (kwarg(c, 'axis') is None or sym.norm(kwarg(c, 'axis')) == ('num', 0))
            fn.ob('FORMULA', 'stats.mode is scipy.stats.mode over axis 0 of the sliced data', ok, c,
                  detail='' if ok else norm_stmt(c), key='formula')
            # the value returned is the modal-value field (index 0 / .mode), never the count
            for r in rets:
                nf = fn.nf(r.value, at=r, stop=(S,))
                txt = sym.show(nf)
                okf = '[1]' not in txt.replace('[0][1]', '[1]') or True
            # (field selection is decided by RANK below: tuple index must be 0)
        # RANK
        out = []
        rank_run(fn, fn.ast.body, {'data': ('r', None), 'channels': None}, out, pre)
        cx.need(out, 'stats.%s: RANK reached no return' % name)
        for r, rk in out:
            ok = rk == ('r', -1)
            fn.ob('RANK', 'result has one dimension less than the sliced data (a vector for a matrix, a scalar for one channel)',
                  ok, r, detail='' if ok else 'abstract rank of the result is %s (rho = rank of the sliced data; '
                  'installed scipy.stats.mode keepdims default = %s)' % (
                      'rho%+d' % rk[1] if rk and rk[0] == 'r' and rk[1] is not None else rk, keep), key='rank')
        if name == 'mode':
            # field 0 of the ModeResult
            subs = [s for s in fn.walk() if isinstance(s, ast.Subscript) and isinstance(s.value, ast.Call)
                    and dotted(s.value.func) == 'scipy.stats.mode']
            attrs = [s for s in fn.walk() if isinstance(s, ast.Attribute) and isinstance(s.value, ast.Call)
                     and dotted(s.value.func) == 'scipy.stats.mode']
            ok = (len(subs) == 1 and sym.norm(subs[0].slice) == ('num', 0) and not attrs) or \
                 (len(attrs) == 1 and attrs[0].attr == 'mode' and not subs)
            if not ok and not subs and not attrs:
                # (values, counts) taken apart by unpacking: the first part is used, the second bound to a name nothing reads
                unp = [s for s in fn.stmts(ast.Assign) if isinstance(s.value, ast.Call) and dotted(s.value.func) == 'scipy.stats.mode'
                       and len(s.targets) == 1 and isinstance(s.targets[0], ast.Tuple) and len(s.targets[0].elts) == 2
                       and all(isinstance(t, ast.Name) for t in s.targets[0].elts)]
                if len(unp) == 1:
                    first, junk = [t.id for t in unp[0].targets[0].elts]
                    loads = {n.id for n in fn.walk() if isinstance(n, ast.Name) and isinstance(n.ctx, ast.Load)}
                    ok = first in loads and junk not in loads
            fn.ob('FORMULA', 'the modal values (not the counts) are returned', ok, subs[0] if subs else fn.ast, key='mode-field')
    # IDENT
    st = Fn(cx, 'stats.std')
    if all(k in nfs for k in ('cv', 'std', 'mean', 'rcv', 'iqr', 'median', 'gcv', 'gstd')):
        def ren(t, a, b):
            return eval(repr(t).replace(repr(('var', a)), repr(('var', b))))
        Sn = {k: prelude_name(cx, k) for k in nfs}
        def canon(k):
            return ren(nfs[k], Sn[k], 'X')
        ok = canon('cv') == sym.mk_mul([canon('std'), sym.mk_pow(canon('mean'), ('num', -1))])
        cx.ob('IDENT', 'CV = SD / mean (shared sub-expressions)', ok, st.mod, Fn(cx, 'stats.cv').ast, 'stats.cv', key='cv')
        ok = canon('rcv') == sym.mk_mul([canon('iqr'), sym.mk_pow(canon('median'), ('num', -1))])
        cx.ob('IDENT', 'robust CV = IQR / median', ok, st.mod, Fn(cx, 'stats.rcv').ast, 'stats.rcv', key='rcv')
        g = canon('gstd')
        lg = g[2][0] if g[0] == 'call' and g[1] == 'exp' else None
        want = sym.mk_pow(sym.mk_add([('call', 'exp', (sym.mk_pow(lg, ('num', 2)),), ()), ('num', -1)]), ('num', 0.5)) if lg else None
        ok = lg is not None and canon('gcv') == want
        cx.ob('IDENT', 'geometric CV = sqrt(exp(ln(geometric SD)^2) - 1)', ok, st.mod, Fn(cx, 'stats.gcv').ast, 'stats.gcv', key='gcv')
    cx.floor('FORMULA', cx.rules.get('FORMULA', 0), 10, 'statistics')
    cx.floor('RANK', cx.rules.get('RANK', 0), 10, 'statistics')
    # KINDS: index kinds NumPy reductions apply to an ndarray subclass must be accepted
    try:
        from . import kinds
    except ImportError:
        kinds = None
    if kinds is not None:
        kinds.basic_kinds_accepted(cx)
    # name/position equivalence rests on the translation of names (shared with C04)
    from . import fcsdata_rules as R
    R.name_to_index_shape(cx)
    R.getitem_branches(cx)
    # API
    mod = cx.repo.mod('stats')
    qmap = {}
    for q, f in mod.funcs.items():
        for x in ast.walk(f):
            qmap.setdefault(id(x), 'stats.' + q)
    extapi.api_obligations(cx, mod, mod.tree, lambda nd: qmap.get(id(nd), 'stats'), min_found=15)
    cx.decided += [
        'all ten statistics share the slicing prelude (whole data iff channels is None, else data[:, channels])',
        'each return expression has the normal form of its definition over axis 0 (nine statistics) / scipy.stats.mode over axis 0',
        'CV = SD/mean, RCV = IQR/median, GCV = sqrt(exp(ln(GSD)^2)-1) hold as identities of the normal forms',
        'abstract rank of every result is rank(sliced data) - 1, with the keepdims default of the installed scipy.stats.mode',
        'basic-index kinds (int, NumPy integer, slice, Ellipsis) in column position are not refused by FCSData.__getitem__',
        'third-party names and call signatures in stats.py resolve',
    ]
    cx.not_decided += ['that NumPy/SciPy reductions equal the textbook definitions',
                       'which concrete keys a NumPy version generates internally (the whole basic-index grammar is used instead)']


def prelude_name(cx, k):
    fn = Fn(cx, 'stats.' + k)
    for st in fn.ast.body:
        for a in ast.walk(st):
            if isinstance(a, ast.Assign) and isinstance(a.targets[0], ast.Name):
                return a.targets[0].id
    raise AnalysisError('stats.%s: prelude variable not found' % k)
