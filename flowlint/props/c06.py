"""C06 - MEF conversion applies each channel's own standard curve, or refuses."""
from . import transform_rules as T
from . import mef_rules


def run(cx):
    T.to_mef_all(cx, want=('GUARD', 'PAIR', 'WRITESET'))
    mef_rules.transform_assembly(cx)
    cx.decided += [
        'unequal numbers of curves and channels refused (ValueError) before pairing',
        'every requested channel without a curve raises, decided per requested channel, before any conversion',
        'curve channels and curves are zipped in the listed order (no re-ordering/de-duplication)',
        'column index and applied curve come from the same zip tuple; stores only for requested channels, on a fresh copy',
        'names translated to positions for both the curve channels and the request',
        'calibration emits exactly one curve per calibrated channel in channel order and binds both lists in the returned callable',
    ]
    cx.not_decided += ['numerical content of the curves (C09)']
