"""C05 - the density gate keeps the densest whole bins holding the requested share."""
import ast

from ..core import AnalysisError, norm_stmt
from ..rules import (Fn, guards, guard_dominates, names_in, kwarg, is_none_test, inventory,
                     subscript_stores, always_raises, raised_types)
from ..cfg import target_names, root_name
from .. import sym
from ..sym import dotted
from . import c08

SMOOTH = ("SH = scipy.ndimage.filters.gaussian_filter(H, sigma=sigma, order=0, mode='constant', cval=0.0, truncate=6.0)")

ITEMS = [
    ('the two chosen channels', 'X = data[:, channels]'),
    ('a 1-D selection is read as one column', 'X = X.reshape((-1, 1))'),
    ('no event to keep: the event mask is False everywhere', 'MASK = np.zeros(shape=X.shape[0], dtype=bool)'),
    ('no event to keep: gated data = input indexed by that mask', 'GD = data[MASK]'),
    ('the histogram is taken of the two chosen channels over the given bins', 'H, XE, YE = np.histogram2d(X[:, 0], X[:, 1], bins=bins)'),
    ('x edges only re-cast', 'XE = np.array(XE, dtype=float)'),
    ('y edges only re-cast', 'YE = np.array(YE, dtype=float)'),
    ('one index per event', 'EV = np.arange(X.shape[0])'),
    ('axis 0: event -> bin index is digitize(value, x edges) - 1', 'XI = np.digitize(X[:, 0], bins=XE) - 1'),
    ('axis 1: event -> bin index is digitize(value, y edges) - 1', 'YI = np.digitize(X[:, 1], bins=YE) - 1'),
    ('axis 0: an event on the last x edge belongs to the last x bin', 'XI[X[:, 0] == XE[-1]] = len(XE) - 2'),
    ('axis 1: an event on the last y edge belongs to the last y bin', 'YI[X[:, 1] == YE[-1]] = len(YE) - 2'),
    ('an event is out of the grid iff either bin index is -1 or len(edges)-1',
     'OM = (XI == -1) | (XI == len(XE) - 1) | (YI == -1) | (YI == len(YE) - 1)'),
    ('out-of-grid events are removed from the event indices', 'EV = EV[~OM]'),
    ('... from the x bin indices', 'XI = XI[~OM]'),
    ('... from the y bin indices', 'YI = YI[~OM]'),
    ('one list of events per bin', 'HE = np.empty_like(H, dtype=object)'),
    ('each in-grid event is filed once in the bin given by its indices', 'for EI, XB, YB in zip(EV, XI, YI):'),
    ('... filed', 'HE[XB, YB].append(EI)'),
    ('target count is ceil(f * number of in-grid events)', 'N = int(np.ceil(gate_fraction * float(len(EV))))'),
    ('a target of 0 keeps nothing', 'if N == 0:'),
    ('smoothing with the documented Gaussian (sigma, zero padding, 6 sigma truncation)', SMOOTH),
    ('normalised density', 'D = SH / np.sum(SH)'),
    ('densities in C order', "VD = D.ravel(order='C')"),
    ('counts in the same C order', "VH = H.ravel(order='C')"),
    ('bins sorted by decreasing density', 'SIDX = np.argsort(VD)[::-1]'),
    ('counts in that order', 'SVH = VH[SIDX]'),
    ('cumulative counts', 'CS = np.cumsum(SVH)'),
    ('cut at the first position where the cumulative count reaches the target', 'NIDX = np.nonzero(CS >= N)[0][0]'),
    ('accepted bins: the prefix up to and including that position', 'ABI = SIDX[:NIDX + 1]'),
    ('bin mask starts all False', 'bin_mask = np.zeros_like(H, dtype=bool)'),
    ('... viewed in the same C order', "VBM = bin_mask.ravel(order='C')"),
    ('... accepted bins marked', 'VBM[ABI] = True'),
    ('... back to the histogram\'s shape', "bin_mask = VBM.reshape(H.shape, order='C')"),
    ('kept events are exactly the events filed in the masked bins (whole bins)', 'ADI = HE[bin_mask]'),
    ('... flattened', 'ADI = np.array([ITEM for SUB in ADI for ITEM in SUB], dtype=int)'),
    ('the event mask is False everywhere', 'MASK = np.zeros(shape=data.shape[0], dtype=bool)'),
    ('... except at the kept events', 'MASK[ADI] = True'),
    ('gated data = input indexed by the mask', 'GD = data[MASK]'),
]
METAS = ['X', 'H', 'XE', 'YE', 'EV', 'XI', 'YI', 'OM', 'HE', 'EI', 'XB', 'YB', 'N', 'SH', 'D', 'VD', 'VH', 'SIDX', 'SVH', 'CS', 'NIDX',
         'ABI', 'VBM', 'ADI', 'ITEM', 'SUB', 'MASK', 'GD']


def run(cx):
    fn = Fn(cx, 'gate.density2d')
    data = fn.params[0]
    c08.guard_len2(cx, fn, None)
    c08.gateshape(cx, fn)
    b = inventory(fn, 'FORMULA', ITEMS, METAS, rebind_ok=('bins', 'bin_mask'))
    nm = {k: v[1] for k, v in b.items() if isinstance(v, tuple) and v[0] == 'var'}
    need = ['X', 'H', 'XE', 'YE', 'EV', 'XI', 'YI', 'OM', 'N', 'MASK']
    if not all(k in nm for k in need):
        if not cx.violations:
            raise AnalysisError('gate.density2d: statement inventory incomplete without a violation')
        return
    X, H, xe, ye, E, xi, yi, O, N, MK = [nm[k] for k in need]

    def assign_of(name, pattern=None):
        out = [s for s in fn.stmts(ast.Assign) if isinstance(s.targets[0], ast.Name) and s.targets[0].id == name]
        if pattern is not None:
            out = [s for s in out if fn.eqv(s.value, pattern) is not None]
        return out

    # fewer than two events refused before binning
    gs = guards(fn, mentions=lambda t: sym.norm(t) in (sym.norm('%s.shape[0] <= 1' % X), sym.norm('%s.shape[0] < 2' % X),
                                                        sym.norm('len(%s) <= 1' % X), sym.norm('len(%s) < 2' % X)), exc=['ValueError'])
    h2d = fn.calls('np.histogram2d')
    ok = len(gs) == 1 and len(h2d) == 1 and guard_dominates(fn, gs[0][0], gs[0][1], h2d[0])
    fn.ob('GUARD', 'fewer than two events are refused before binning', ok, gs[0][0] if gs else fn.ast, key='two-events')
    # gate fraction outside [0, 1] refused before it is used
    gs = guards(fn, mentions=lambda t: names_in(t) == {'gate_fraction'}, exc=['ValueError'])
    uses = [n for n in fn.walk() if isinstance(n, ast.Name) and n.id == 'gate_fraction' and isinstance(n.ctx, ast.Load)
            and not any(any(n is x for x in ast.walk(g[0].test)) for g in gs)]
    ok = len(gs) == 1 and not gs[0][1] and sym.norm(gs[0][0].test) == sym.norm('gate_fraction < 0 or gate_fraction > 1') \
        and bool(uses) and all(guard_dominates(fn, gs[0][0], False, u) for u in uses)
    fn.ob('GUARD', 'a gate fraction outside [0, 1] is refused before it enters the target count', ok, gs[0][0] if gs else fn.ast,
          detail='' if ok else 'refusal must be `gate_fraction < 0 or gate_fraction > 1` and dominate every use', key='fraction')
    # REACH: filtered arrays are the ones that fill the bins and enter the count; filters come after reconciliation
    filt = {v: assign_of(v, '%s[~%s]' % (v, O)) for v in (E, xi, yi)}
    om = assign_of(O)
    recs = [st for st, t in subscript_stores(fn) if root_name(t) in (xi, yi)]
    ok = all(len(f) == 1 for f in filt.values()) and len(om) == 1 and len(recs) == 2 \
        and all(r.lineno < om[0].lineno for r in recs) and all(f[0].lineno > om[0].lineno for f in filt.values())
    fn.ob('REACH', 'edge reconciliation precedes the outlier mask, and the mask precedes the three filters', ok, om[0] if om else fn.ast,
          key='filter-order')
    fills = [f for f in fn.stmts(ast.For) if isinstance(f.iter, ast.Call) and dotted(f.iter.func) == 'zip'
             and [dotted(a) for a in f.iter.args] == [E, xi, yi]]
    ok = len(fills) == 1 and all(len(filt[v]) == 1 and {d.id for d in fn.rd.reaching(fn.node(fills[0]), v)} == {fn.node(filt[v][0]).id}
                                 for v in (E, xi, yi))
    fn.ob('REACH', 'the bins are filled from the filtered (in-grid) events only', ok, fills[0] if fills else fn.ast, key='fill-filtered')
    ndef = assign_of(N)
    ok = len(ndef) == 1 and len(filt[E]) == 1 and {d.id for d in fn.rd.reaching(fn.node(ndef[0]), E)} == {fn.node(filt[E][0]).id}
    fn.ob('REACH', 'the target count counts the filtered (in-grid) events only', ok, ndef[0] if ndef else fn.ast, key='count-filtered')
    # n == 0: nothing kept
    z = [st for st in fn.stmts(ast.If) if sym.norm(st.test) == sym.norm('%s == 0' % N)]
    okz = len(z) == 1
    if okz:
        a = {s.targets[0].id: s for s in z[0].body if isinstance(s, ast.Assign) and isinstance(s.targets[0], ast.Name)}
        okz = MK in a and sym.norm(a[MK].value) in (sym.norm('np.zeros(shape=%s.shape[0], dtype=bool)' % X),
                                                  sym.norm('np.zeros(shape=%s.shape[0], dtype=bool)' % data),
                                                  sym.norm('np.zeros(%s.shape[0], dtype=bool)' % X))
        rr = [s for s in ast.walk(z[0]) if isinstance(s, ast.Return) and isinstance(s.value, ast.Call)]
        okz = okz and len(rr) == 1 and sym.norm(kwarg(rr[0].value, 'bin_mask')) == sym.norm('np.zeros_like(%s, dtype=bool)' % H) \
            and sym.norm(kwarg(rr[0].value, 'bin_edges')) == sym.norm('(%s, %s)' % (xe, ye))
    fn.ob('FORMULA', 'a target count of 0 keeps no event and no bin', okz, z[0] if z else fn.ast, key='n-zero')
    # a supplied bin mask is replayed unchanged: the density computation runs only under `bin_mask is None`
    blk = [st for st in fn.stmts(ast.If) if is_none_test(st.test, 'bin_mask')]
    bm = assign_of('bin_mask')
    okp = len(blk) == 1 and len(bm) == 2 and all(fn.in_body_of(st, blk[0], 'body') for st in bm) and \
        (not gs or fn.in_body_of(gs[0][0], blk[0], 'body'))
    fn.ob('REACH', 'a supplied bin mask is replayed unchanged; the density computation runs only without one', okp,
          blk[0] if blk else fn.ast, key='replay')
    adi = nm.get('ADI')
    if adi and blk:
        ad = assign_of(adi)
        ok = len(ad) in (1, 2) and not any(fn.in_body_of(s, blk[0], "body") for s in ad)   # (two statements under one name are one in canonical form)
        fn.ob('REACH', 'one construction of the event mask is shared by the gate and the replay path', ok, ad[0] if ad else fn.ast, key='shared-mask')
    # returned edges are the edges used for binning; edges only re-cast
    for r in fn.stmts(ast.Return):
        if isinstance(r.value, ast.Call) and kwarg(r.value, 'bin_edges') is not None:
            okr = sym.norm(kwarg(r.value, 'bin_edges')) == sym.norm('(%s, %s)' % (xe, ye))
            fn.ob('REACH', 'returned bin edges are the edges the events were binned with', okr, r, key='edges-returned')
    for e in (xe, ye):
        re_ = assign_of(e)
        okc2 = all(sym.norm(st.value) == sym.norm('np.array(%s, dtype=float)' % e) for st in re_)
        fn.ob('REACH', 'edges are only re-cast, never recomputed', okc2, re_[0] if re_ else fn.ast, key='edges-cast-' + ('x' if e == xe else 'y'))
    # caller's bins are never written
    st = [s for s, t in subscript_stores(fn) if root_name(t) == 'bins']
    okw = True
    for s_ in st:
        cp = [c for c in fn.stmts(ast.Assign) if isinstance(c.targets[0], ast.Name) and c.targets[0].id == 'bins'
              and sym.norm(c.value) in (sym.norm('list(bins)'), sym.norm('copy.copy(bins)'), sym.norm('bins[:]'), sym.norm('[bins[0], bins[1]]'))]
        okw = okw and bool(cp) and any(fn.cfg.dominates(fn.node(c), fn.node(s_)) for c in cp)
    fn.ob('MUT', 'the caller\'s bin specification is not written (stores only after a local copy)', okw, st[0] if st else fn.ast,
          key='bins-untouched')
    # sample-derived bins: hist_bins of the right axis with the right scale
    hb = [c for c in fn.calls() if isinstance(c.func, ast.Attribute) and c.func.attr == 'hist_bins' and c.keywords]
    pairs = sorted((sym.show(sym.norm(kwarg(c, 'channels'))), sym.show(sym.norm(kwarg(c, 'scale')))) for c in hb)
    okh = pairs == sorted([('0', 'xscale'), ('1', 'yscale')] * 2) and all(dotted(c.func.value) == X for c in hb)
    fn.ob('FORMULA', 'sample-derived bins: axis 0 uses xscale, axis 1 uses yscale', okh, hb[0] if hb else fn.ast, detail=str(pairs),
          key='hist-bins-axes')
    cx.floor('FORMULA', cx.rules.get('FORMULA', 0), 36, 'density2d formulas')
    cx.decided += [
        'refusals: other than two channels, fewer than two events, f outside [0,1] - each dominates the use it protects',
        'every step of the gate has the documented normal form up to renaming of locals: digitize-1 over the histogram\'s own edges, last-edge reconciliation per axis, outlier mask, filters, bin filling, target = ceil(f * in-grid events), Gaussian smoothing arguments, density order, cumulative cut (>=, inclusive prefix), bin mask, whole-bin event mask',
        'the same outlier mask filters event indices and both bin indices, after reconciliation; bins are filled and the target is counted from the filtered arrays',
        'a target of 0 keeps nothing; a supplied bin mask is replayed through the same event-mask construction; returned edges = used edges',
        'gated data = input indexed by the returned mask; the caller\'s bins are not written',
    ]
    cx.not_decided += ['numerical facts about argsort/cumsum/gaussian_filter (stability under ties, permutation invariance, monotonicity in f)']
