"""C05 - the density gate keeps the densest whole bins holding the requested share."""
import ast

from ..core import AnalysisError, norm_stmt
from ..rules import (Fn, guards, guard_dominates, names_in, kwarg, is_none_test, spec_check,
                     subscript_stores, always_raises, raised_types)
from ..cfg import target_names, root_name
from .. import sym
from ..sym import dotted
from . import c08


def run(cx):
    fn = Fn(cx, 'gate.density2d')
    data = fn.params[0]
    c08.guard_len2(cx, fn, None)
    c08.gateshape(cx, fn)
    # the two-channel view
    dch = [n for n in fn.cfg.nodes if n.kind == 'stmt' and isinstance(n.ast, ast.Assign)
           and sym.norm(n.ast.value) == sym.norm('%s[:, channels]' % data)]
    cx.need(len(dch) == 1, 'gate.density2d: channel view `data[:, channels]` not found')
    X = dch[0].ast.targets[0].id
    # fewer than two events refused
    gs = guards(fn, mentions=lambda t: sym.norm(t) in (sym.norm('%s.shape[0] <= 1' % X), sym.norm('%s.shape[0] < 2' % X),
                                                        sym.norm('len(%s) <= 1' % X), sym.norm('len(%s) < 2' % X)), exc=['ValueError'])
    h2d = fn.calls('np.histogram2d')
    cx.need(len(h2d) == 1, 'gate.density2d: expected one np.histogram2d call')
    ok = len(gs) == 1 and guard_dominates(fn, gs[0][0], gs[0][1], h2d[0])
    fn.ob('GUARD', 'fewer than two events are refused before binning', ok, gs[0][0] if gs else fn.ast, key='two-events')
    # gate fraction outside [0, 1] refused before it is used
    gs = guards(fn, mentions=lambda t: names_in(t) == {'gate_fraction'}, exc=['ValueError'])
    uses = [n for n in fn.walk() if isinstance(n, ast.Name) and n.id == 'gate_fraction' and isinstance(n.ctx, ast.Load)
            and not any(g[0].test is a or any(a is x for x in ast.walk(g[0].test)) for g in gs for a in [n])]
    ok = len(gs) == 1 and not gs[0][1] and sym.norm(gs[0][0].test) == sym.norm('gate_fraction < 0 or gate_fraction > 1') \
        and bool(uses) and all(guard_dominates(fn, gs[0][0], False, u) for u in uses)
    fn.ob('GUARD', 'a gate fraction outside [0, 1] is refused before it enters the target count', ok, gs[0][0] if gs else fn.ast,
          detail='' if ok else 'refusal must be `gate_fraction < 0 or gate_fraction > 1` and dominate every use', key='fraction')
    # histogram and edges
    hst = fn.parent[id(h2d[0])]
    cx.need(isinstance(hst, ast.Assign) and isinstance(hst.targets[0], ast.Tuple) and len(hst.targets[0].elts) == 3,
            'gate.density2d: histogram2d result not unpacked into (H, xe, ye)')
    H, xe0, ye0 = [t.id for t in hst.targets[0].elts]
    ok = sym.norm(h2d[0]) == sym.norm('np.histogram2d(%s[:, 0], %s[:, 1], bins=bins)' % (X, X))
    fn.ob('FORMULA', 'the histogram is taken of the two chosen channels over the given bins', ok, h2d[0], key='histogram')
    xe, ye = xe0, ye0
    # per-axis bin index: digitize - 1, right edge reconciled, and the outlier mask
    axes = {}
    for k, e in ((0, xe), (1, ye)):
        cand = [st for st in fn.stmts(ast.Assign) if isinstance(st.targets[0], ast.Name)
                and sym.norm(st.value) == sym.norm('np.digitize(%s[:, %d], bins=%s) - 1' % (X, k, e))]
        cx.need(len(cand) == 1, 'gate.density2d: bin index of axis %d is not `np.digitize(...) - 1` over %s' % (k, e))
        axes[k] = cand[0].targets[0].id
        fn.ob('FORMULA', 'axis %d: event -> bin index is digitize(value, edges) - 1 over the histogram\'s own edges' % k, True,
              cand[0], key='digitize-%d' % k)
        rec = [st for st, t in subscript_stores(fn) if root_name(t) == axes[k]]
        okr = len(rec) == 1 and sym.norm(rec[0].targets[0]) == sym.norm('%s[%s[:, %d] == %s[-1]]' % (axes[k], X, k, e)) \
            and sym.norm(rec[0].value) == sym.norm('len(%s) - 2' % e)
        fn.ob('FORMULA', 'axis %d: an event on the last edge belongs to the last bin (index len(edges)-2 of the same axis)' % k,
              okr, rec[0] if rec else cand[0], detail='' if okr else 'reconciliation: %s' % (norm_stmt(rec[0]) if rec else 'missing'),
              key='right-edge-%d' % k)
    xi, yi = axes[0], axes[1]
    om = [st for st in fn.stmts(ast.Assign) if isinstance(st.targets[0], ast.Name) and
          sym.norm(st.value) == sym.norm('(%s == -1) | (%s == len(%s) - 1) | (%s == -1) | (%s == len(%s) - 1)' % (xi, xi, xe, yi, yi, ye))]
    ok = len(om) == 1
    fn.ob('FORMULA', 'an event is out of the grid iff either bin index is -1 or len(edges)-1', ok, om[0] if om else fn.ast,
          detail='' if ok else 'outlier mask not of the documented form', key='outlier-mask')
    cx.need(ok, 'gate.density2d: outlier mask not found')
    O = om[0].targets[0].id
    # event indices and both bin indices are filtered by the same mask, after reconciliation
    ev = [st for st in fn.stmts(ast.Assign) if isinstance(st.targets[0], ast.Name) and
          sym.norm(st.value) == sym.norm('np.arange(%s.shape[0])' % X)]
    cx.need(len(ev) == 1, 'gate.density2d: event index array not found')
    E = ev[0].targets[0].id
    filt = {}
    for v in (E, xi, yi):
        f = [st for st in fn.stmts(ast.Assign) if isinstance(st.targets[0], ast.Name) and st.targets[0].id == v
             and sym.norm(st.value) == sym.norm('%s[~%s]' % (v, O))]
        okf = len(f) == 1 and f[0].lineno > om[0].lineno
        filt[v] = f[0] if f else None
        fn.ob('REACH', 'out-of-grid events are removed from %s' % v, okf, f[0] if f else om[0], key='filter-' + v)
    # H_events filled from the filtered triples
    fills = [f for f in fn.stmts(ast.For) if isinstance(f.iter, ast.Call) and dotted(f.iter.func) == 'zip'
             and [dotted(a) for a in f.iter.args] == [E, xi, yi]]
    ok = len(fills) == 1
    if ok:
        f = fills[0]
        t = [x.id for x in f.target.elts]
        ok = len(f.body) == 1 and isinstance(f.body[0], ast.Expr) and \
            sym.norm(f.body[0].value).__repr__().count('append') == 1 and \
            all(filt[v] is not None and {d.id for d in fn.rd.reaching(fn.node(f), v)} == {fn.node(filt[v]).id} for v in (E, xi, yi))
        HE = None
        c = f.body[0].value if isinstance(f.body[0], ast.Expr) else None
        if ok and isinstance(c, ast.Call) and isinstance(c.func, ast.Attribute) and isinstance(c.func.value, ast.Subscript):
            HE = dotted(c.func.value.value)
            ok = sym.norm(c) == sym.norm('%s[%s, %s].append(%s)' % (HE, t[1], t[2], t[0]))
        else:
            ok = False
    fn.ob('REACH', 'each in-grid event is filed once in the bin given by its (reconciled, filtered) indices', ok,
          fills[0] if fills else fn.ast, key='fill')
    cx.need(ok, 'gate.density2d: bin filling loop changed shape')
    # target count from the in-grid events only
    ndef = [st for st in fn.stmts(ast.Assign) if isinstance(st.targets[0], ast.Name) and st.targets[0].id == 'n']
    cx.need(len(ndef) == 1, 'gate.density2d: target count `n` not found')
    okn = sym.norm(ndef[0].value) in (sym.norm('int(np.ceil(gate_fraction * float(len(%s))))' % E),
                                      sym.norm('int(np.ceil(gate_fraction * len(%s)))' % E),
                                      sym.norm('int(math.ceil(gate_fraction * len(%s)))' % E)) and \
        {d.id for d in fn.rd.reaching(fn.node(ndef[0]), E)} == {fn.node(filt[E]).id}
    fn.ob('FORMULA', 'target count is ceil(f * number of in-grid events)', okn, ndef[0],
          detail='' if okn else sym.show(sym.norm(ndef[0].value)), key='target-count')
    # n == 0: nothing kept
    z = [st for st in fn.stmts(ast.If) if sym.norm(st.test) == sym.norm('n == 0')]
    okz = len(z) == 1
    if okz:
        b = z[0].body
        a = {s.targets[0].id: s for s in b if isinstance(s, ast.Assign) and isinstance(s.targets[0], ast.Name)}
        okz = 'mask' in a and sym.norm(a['mask'].value) in (sym.norm('np.zeros(shape=%s.shape[0], dtype=bool)' % X),
                                                           sym.norm('np.zeros(shape=%s.shape[0], dtype=bool)' % data),
                                                           sym.norm('np.zeros(%s.shape[0], dtype=bool)' % X))
        rr = [s for s in ast.walk(z[0]) if isinstance(s, ast.Return) and isinstance(s.value, ast.Call)]
        okz = okz and len(rr) == 1 and sym.norm(kwarg(rr[0].value, 'bin_mask')) == sym.norm('np.zeros_like(%s, dtype=bool)' % H) \
            and sym.norm(kwarg(rr[0].value, 'bin_edges')) == sym.norm('(%s, %s)' % (xe, ye))
    fn.ob('FORMULA', 'a target count of 0 keeps no event and no bin', okz, z[0] if z else ndef[0], key='n-zero')
    # smoothing, density order, cumulative cut
    acc = [st for st in fn.stmts(ast.Assign) if isinstance(st.targets[0], ast.Name) and st.targets[0].id == 'accepted_bin_indices']
    if len(acc) != 1:
        acc = [st for st, t in subscript_stores(fn) if False]
    cx.need(len(acc) == 1, 'gate.density2d: accepted bin indices not found')
    sigma_smooth = ("scipy.ndimage.filters.gaussian_filter(%s, sigma=sigma, order=0, mode='constant', cval=0.0, truncate=6.0)" % H)
    alt_smooth = ("scipy.ndimage.gaussian_filter(%s, sigma=sigma, order=0, mode='constant', cval=0.0, truncate=6.0)" % H)
    okc = False
    got = fn.nf(acc[0].value, at=acc[0], stop=(H, 'n'))
    for sm in (sigma_smooth, alt_smooth):
        D = '(%s / np.sum(%s))' % (sm, sm)
        order = "np.argsort(%s.ravel(order='C'))[::-1]" % D
        spec = "%s[:(np.nonzero(np.cumsum(%s.ravel(order='C')[%s]) >= n)[0][0] + 1)]" % (order, H, order)
        if got == sym.norm(spec):
            okc = True
    fn.ob('FORMULA', 'accepted bins: bins sorted by decreasing smoothed density, cut at the first position where the cumulative event count reaches the target (inclusive)',
          okc, acc[0], detail='' if okc else 'computes %s' % sym.show(got)[:600], key='cut')
    # bin mask from accepted indices
    bm = [st for st in fn.stmts(ast.Assign) if isinstance(st.targets[0], ast.Name) and st.targets[0].id == 'bin_mask']
    vbm = [st for st, t in subscript_stores(fn) if sym.norm(t) == sym.norm('v_bin_mask[accepted_bin_indices]')]
    okb = len(vbm) == 1 and sym.norm(vbm[0].value) == ('const', True)
    vals = [sym.norm(st.value) for st in bm]
    okb = okb and sym.norm('np.zeros_like(%s, dtype=bool)' % H) in vals and \
        sym.norm("v_bin_mask.reshape(%s.shape, order='C')" % H) in vals
    vb = [st for st in fn.stmts(ast.Assign) if isinstance(st.targets[0], ast.Name) and st.targets[0].id == 'v_bin_mask']
    okb = okb and len(vb) == 1 and sym.norm(vb[0].value) == sym.norm("bin_mask.ravel(order='C')")
    fn.ob('FORMULA', 'the bin mask marks exactly the accepted bins (same C-order linearisation as the sort)', okb,
          vbm[0] if vbm else fn.ast, key='bin-mask')
    # a given bin mask is used as is (replay path): computed only under `bin_mask is None`
    blk = [st for st in fn.stmts(ast.If) if is_none_test(st.test, 'bin_mask')]
    okp = len(blk) == 1 and all(fn.in_body_of(st, blk[0], 'body') for st in bm) and \
        (not gs or fn.in_body_of(gs[0][0], blk[0], 'body'))
    fn.ob('REACH', 'a supplied bin mask is replayed unchanged; the density computation runs only without one', okp,
          blk[0] if blk else fn.ast, key='replay')
    # final event mask: one construction reached by both paths
    ad = [st for st in fn.stmts(ast.Assign) if isinstance(st.targets[0], ast.Name) and st.targets[0].id == 'accepted_data_indices']
    oka = len(ad) == 2 and sym.norm(ad[0].value) == sym.norm('%s[bin_mask]' % HE) and \
        sym.norm(ad[1].value) == sym.norm('np.array([item for sublist in accepted_data_indices for item in sublist], dtype=int)')
    if blk and oka:
        oka = not fn.in_body_of(ad[0], blk[0], 'body')
    fn.ob('FORMULA', 'kept events are exactly the events filed in the masked bins (whole bins)', oka, ad[0] if ad else fn.ast,
          key='accepted-events')
    mk = [st for st in fn.stmts(ast.Assign) if isinstance(st.targets[0], ast.Name) and st.targets[0].id == 'mask'
          and (not z or not fn.in_body_of(st, z[0], 'body'))]
    ms = [st for st, t in subscript_stores(fn) if root_name(t) == 'mask']
    okm = len(mk) == 1 and sym.norm(mk[0].value) in (sym.norm('np.zeros(shape=%s.shape[0], dtype=bool)' % data),
                                                     sym.norm('np.zeros(%s.shape[0], dtype=bool)' % data)) \
        and len(ms) == 1 and sym.norm(ms[0].targets[0]) == sym.norm('mask[accepted_data_indices]') \
        and sym.norm(ms[0].value) == ('const', True)
    fn.ob('FORMULA', 'the event mask is False everywhere except at the kept events', okm, mk[0] if mk else fn.ast, key='event-mask')
    # returned edges are the edges used for binning
    for r in fn.stmts(ast.Return):
        if isinstance(r.value, ast.Call) and kwarg(r.value, 'bin_edges') is not None:
            okr = sym.norm(kwarg(r.value, 'bin_edges')) == sym.norm('(%s, %s)' % (xe, ye))
            fn.ob('REACH', 'returned bin edges are the edges the events were binned with', okr, r, key='edges-returned')
    # xe / ye re-cast to float arrays only (same values)
    for e in (xe, ye):
        re = [st for st in fn.stmts(ast.Assign) if isinstance(st.targets[0], ast.Name) and st.targets[0].id == e]
        okc2 = all(sym.norm(st.value) == sym.norm('np.array(%s, dtype=float)' % e) for st in re)
        fn.ob('REACH', 'edges %s are only re-cast, never recomputed' % e, okc2, re[0] if re else hst, key='edges-cast-' + e)
    # caller's bins are never written
    st = [s for s, t in subscript_stores(fn) if root_name(t) == 'bins']
    okw = True
    for s in st:
        # allowed only after `bins = list(bins)` (a copy) dominates the store
        cp = [c for c in fn.stmts(ast.Assign) if isinstance(c.targets[0], ast.Name) and c.targets[0].id == 'bins'
              and sym.norm(c.value) in (sym.norm('list(bins)'), sym.norm('copy.copy(bins)'), sym.norm('bins[:]'), sym.norm('[bins[0], bins[1]]'))]
        okw = okw and bool(cp) and any(fn.cfg.dominates(fn.node(c), fn.node(s)) for c in cp)
    fn.ob('MUT', 'the caller\'s bin specification is not written (stores only after a local copy)', okw, st[0] if st else fn.ast,
          key='bins-untouched')
    # sample-derived bins: hist_bins of the right axis with the right scale
    hb = [c for c in fn.calls() if isinstance(c.func, ast.Attribute) and c.func.attr == 'hist_bins' and c.keywords]
    pairs = sorted((sym.show(sym.norm(kwarg(c, 'channels'))), sym.show(sym.norm(kwarg(c, 'scale')))) for c in hb)
    okh = pairs == sorted([('0', 'xscale'), ('1', 'yscale')] * 2) and all(dotted(c.func.value) == X for c in hb)
    fn.ob('FORMULA', 'sample-derived bins: axis 0 uses xscale, axis 1 uses yscale', okh, hb[0] if hb else fn.ast, detail=str(pairs),
          key='hist-bins-axes')
    cx.floor('FORMULA', cx.rules.get('FORMULA', 0), 12, 'density2d formulas')
    cx.decided += [
        'refusals: other than two channels, fewer than two events, f outside [0,1] - each dominates the use it protects',
        'event -> bin mapping: digitize-1 over the histogram\'s own edges, last-edge reconciliation per axis, outlier mask of the documented form',
        'the same outlier mask filters event indices and both bin indices; bins are filled and the target is counted from the filtered arrays',
        'target = ceil(f * in-grid events); 0 keeps nothing',
        'accepted bins = prefix of the density-descending order up to the first cumulative count >= target (inclusive); smoothing call has the documented arguments',
        'bin mask marks the accepted bins; kept events = events filed in masked bins; one mask construction shared by the gate and the replay path; returned edges = used edges',
        'gated data = input indexed by the returned mask; the caller\'s bins are not written',
    ]
    cx.not_decided += ['numerical facts about argsort/cumsum/gaussian_filter (stability under ties, permutation invariance, monotonicity in f)']
