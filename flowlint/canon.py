"""Canonicalisation of statement idioms on the syntax tree (applied to every module at load time).

Behaviour-preserving rewrites that give equivalent spellings one shape, so that rules and documented
statements need to know one form only:
  C1  if c: x = a  else: x = b            ->  x = a if c else b          (same simple name target)
  C2  x = a if c else x                   ->  if c: x = a
      x = x if c else b                   ->  if not c: x = b
  C3  x = []; for t in it: [tmp = e1;] x.append(e2)   ->  x = [e2' for t in it]
  C4  x = []  followed by x.append(e) statements (possibly interleaved with independent simple
      statements on other names, e.g. a second accumulator)  ->  x = [e, ...]
      x = {}  followed by consecutive x['k'] = v        ->  x = {'k': v, ...}
  C5  `else:` after a branch that always leaves (raise/return/continue/break) is flattened
  C6  a call of a private helper (module-level function, static/class method) whose body is one
      returned expression - also spelled as an if-chain of returns - is replaced by that expression
  C7  a nested `def f(a): return e` is `f = lambda a: e`
  C8  negations in test position are pushed inwards (De Morgan)
  C9  `if a: if b: B` (no else, nothing else in the outer body) is `if a and b: B`
  C11 `return a if c else b` is `if c: return a` / `return b`
  C12 `if not c: A else: B` is `if c: B else: A` (positive spelling of the test); in expressions the same holds
      for conditional expressions (sym.mk_ifexp)
  C10 a loop over a literal sequence of names (or the fields of a module-level namedtuple) is unrolled;
      `getattr(o, 'x')` is `o.x`, `setattr(o, 'x', v)` is `o.x = v`, constant strings are concatenated;
      a local alias of a dotted callable of an imported module (`deepcopy = copy.deepcopy`) is written out
Line numbers of the originals are kept on the rewritten nodes."""
import ast
import copy


def _leaves(stmts):
    if not stmts:
        return False
    last = stmts[-1]
    if isinstance(last, (ast.Raise, ast.Return, ast.Continue, ast.Break)):
        return True
    if isinstance(last, ast.If):
        return _leaves(last.body) and _leaves(last.orelse)
    return False


def _single_name_assign(st):
    if isinstance(st, ast.Assign) and len(st.targets) == 1 and isinstance(st.targets[0], ast.Name):
        return st.targets[0].id
    return None


def _names_loaded(node):
    return {n.id for n in ast.walk(node) if isinstance(n, ast.Name) and isinstance(n.ctx, ast.Load)}


def _subst(expr, name, value):
    class S(ast.NodeTransformer):
        def visit_Name(self, n):
            if n.id == name and isinstance(n.ctx, ast.Load):
                return copy.deepcopy(value)
            return n
    return S().visit(copy.deepcopy(expr))


def _block(stmts):
    out = []
    i = 0
    stmts = [_stmt(s) for s in stmts]
    # flatten lists produced by rewrites
    flat = []
    for s in stmts:
        flat.extend(s if isinstance(s, list) else [s])
    stmts = flat
    while i < len(stmts):
        st = stmts[i]
        nxt = stmts[i + 1] if i + 1 < len(stmts) else None
        x = _single_name_assign(st)
        # C3: x = [] ; for ... : x.append(e)
        if x and isinstance(st.value, ast.List) and not st.value.elts and isinstance(nxt, ast.For) and not nxt.orelse:
            comp = _loop_to_comp(x, nxt)
            if comp is not None:
                new = ast.Assign(targets=[ast.Name(id=x, ctx=ast.Store())], value=comp)
                ast.copy_location(new, nxt)
                ast.fix_missing_locations(new)
                out.append(new)
                i += 2
                continue
        # C4: literal followed by consecutive appends / item stores
        if x and isinstance(st.value, ast.List) and not st.value.elts:
            j = i + 1
            elts, kept = [], []
            while j < len(stmts):
                s_ = stmts[j]
                if _is_append(s_, x) and x not in _names_loaded(s_.value.args[0]):
                    # the append may move up past independent simple statements (interleaved accumulators)
                    if all(_can_hop(s_.value.args[0], k) for k in kept):
                        elts.append(s_.value.args[0])
                        j += 1
                        continue
                    break
                if _simple_independent(s_, x):
                    kept.append(s_)
                    j += 1
                    continue
                break
            if elts:
                new = ast.Assign(targets=[ast.Name(id=x, ctx=ast.Store())], value=ast.List(elts=elts, ctx=ast.Load()))
                ast.copy_location(new, st)
                ast.fix_missing_locations(new)
                # trailing kept statements after the last moved append stay where they were
                stmts[i:j] = [new] + kept
                out.append(new)
                i += 1
                continue
        if x and isinstance(st.value, ast.Dict) and not st.value.keys:
            j = i + 1
            ks, vs = [], []
            while j < len(stmts) and _is_item_store(stmts[j], x) and x not in _names_loaded(stmts[j].value):
                ks.append(stmts[j].targets[0].slice)
                vs.append(stmts[j].value)
                j += 1
            if ks:
                new = ast.Assign(targets=[ast.Name(id=x, ctx=ast.Store())], value=ast.Dict(keys=ks, values=vs))
                ast.copy_location(new, st)
                ast.fix_missing_locations(new)
                out.append(new)
                i = j
                continue
        # C13: a result variable that is only returned: `x = E; return x` is `return E`; an if/elif/else chain whose every
        # branch ends by assigning x (or leaves) followed by `return x` returns from the branches
        if isinstance(nxt, ast.Return) and isinstance(nxt.value, ast.Name):
            rx = nxt.value.id
            if x == rx and isinstance(st, ast.Assign):
                new = ast.copy_location(ast.Return(value=st.value), st)
                r = _stmt(new)
                stmts[i:i + 2] = r if isinstance(r, list) else [r]
                continue
            if isinstance(st, ast.If) and st.orelse and _sinkable(st, rx):
                _sink(st, rx)
                r = _stmt(st)
                stmts[i:i + 2] = r if isinstance(r, list) else [r]
                continue
        # C21: a default overridden under a condition: `x = A` / `if c: x = B` (A a plain name or constant) is `x = B if c else A`
        if x and isinstance(st, ast.Assign) and _simple_load(st.value) and isinstance(nxt, ast.If) and not nxt.orelse and len(nxt.body) == 1 \
                and _single_name_assign(nxt.body[0]) == x and isinstance(nxt.body[0], ast.Assign) \
                and x not in _names_loaded(nxt.test) and x not in _names_loaded(nxt.body[0].value):
            new = ast.Assign(targets=[ast.Name(id=x, ctx=ast.Store())], value=ast.IfExp(test=nxt.test, body=nxt.body[0].value, orelse=st.value))
            ast.copy_location(new, nxt)
            ast.fix_missing_locations(new)
            r = _stmt(new)
            stmts[i:i + 2] = r if isinstance(r, list) else [r]
            continue
        # C19: a refusal that is also what follows: `if a: [if b: X]; Y` / `X` (X and Y leave) is `if a and not b: Y` / `X`
        if isinstance(st, ast.If) and not st.orelse and len(st.body) >= 2 and isinstance(st.body[0], ast.If) and not st.body[0].orelse \
                and _leaves(st.body[0].body) and _leaves(st.body[1:]):
            xb = st.body[0].body
            rest = stmts[i + 1:i + 1 + len(xb)]
            if len(rest) == len(xb) and [ast.dump(b_) for b_ in xb] == [ast.dump(b_) for b_ in rest]:
                nb_ = _nnf(ast.copy_location(ast.UnaryOp(op=ast.Not(), operand=st.body[0].test), st.body[0].test))
                vals = (list(st.test.values) if isinstance(st.test, ast.BoolOp) and isinstance(st.test.op, ast.And) else [st.test]) + \
                       (list(nb_.values) if isinstance(nb_, ast.BoolOp) and isinstance(nb_.op, ast.And) else [nb_])
                new = ast.If(test=ast.BoolOp(op=ast.And(), values=vals), body=st.body[1:], orelse=[])
                ast.copy_location(new, st)
                ast.copy_location(new.test, st.test)
                ast.fix_missing_locations(new)
                stmts[i] = new
                continue
        # C16: consecutive guards with the same leaving body: `if a: raise E` / `if b: raise E` is `if a or b: raise E`
        if isinstance(st, ast.If) and not st.orelse and isinstance(nxt, ast.If) and not nxt.orelse and _leaves(st.body) \
                and [ast.dump(b_) for b_ in st.body] == [ast.dump(b_) for b_ in nxt.body]:
            vals = (list(st.test.values) if isinstance(st.test, ast.BoolOp) and isinstance(st.test.op, ast.Or) else [st.test]) + \
                   (list(nxt.test.values) if isinstance(nxt.test, ast.BoolOp) and isinstance(nxt.test.op, ast.Or) else [nxt.test])
            new = ast.If(test=ast.BoolOp(op=ast.Or(), values=vals), body=st.body, orelse=[])
            ast.copy_location(new, st)
            ast.copy_location(new.test, st.test)
            stmts[i:i + 2] = [new]
            continue
        # C14: two returns that differ in one sub-expression: `if c: return f(A)` / `return f(B)` is
        # `t = A if c else B` / `return f(t)` (the inverse of lifting a conditional argument out of a call)
        if isinstance(st, ast.If) and len(st.body) == 1 and isinstance(st.body[0], ast.Return) and st.body[0].value is not None \
                and not st.orelse and isinstance(nxt, ast.Return) and nxt.value is not None:
            d = _one_difference(st.body[0].value, nxt.value)
            if d is not None:
                a, b, setter = d
                nm = '_sel%d' % st.lineno
                sel = ast.Assign(targets=[ast.Name(id=nm, ctx=ast.Store())], value=ast.IfExp(test=st.test, body=a, orelse=b))
                ast.copy_location(sel, st)
                setter(ast.copy_location(ast.Name(id=nm, ctx=ast.Load()), b))
                ast.fix_missing_locations(sel)
                stmts[i:i + 2] = [sel, nxt]
                out.append(sel)
                out.append(nxt)
                i += 2
                continue
        # ... also when the last return names its differing part first: `if c: return f(A)` / `t = B` / `return f(t)`
        nn = stmts[i + 2] if i + 2 < len(stmts) else None
        if isinstance(st, ast.If) and len(st.body) == 1 and isinstance(st.body[0], ast.Return) and st.body[0].value is not None \
                and not st.orelse and isinstance(nxt, ast.Assign) and _single_name_assign(nxt) and isinstance(nn, ast.Return) and nn.value is not None:
            t = _single_name_assign(nxt)
            uses = [n for n in ast.walk(nn.value) if isinstance(n, ast.Name) and n.id == t]
            if len(uses) == 1 and t not in _names_loaded(nxt.value) and t not in _names_loaded(st):
                e2 = _subst(copy.deepcopy(nn.value), t, nxt.value)
                d = _one_difference(st.body[0].value, e2)
                if d is not None and ast.dump(d[1]) == ast.dump(nxt.value):
                    sel = ast.Assign(targets=nxt.targets, value=ast.IfExp(test=st.test, body=d[0], orelse=nxt.value))
                    ast.copy_location(sel, st)
                    ast.fix_missing_locations(sel)
                    stmts[i:i + 3] = [sel, nn]
                    out.append(sel)
                    out.append(nn)
                    i += 2
                    continue
        out.append(st)
        i += 1
    return out


def _simple_load(e):
    return isinstance(e, (ast.Name, ast.Constant)) or (isinstance(e, ast.Attribute) and _simple_load(e.value))


def _one_difference(e1, e2):
    """(A, B, setter) when e1 and e2 are the same expression but for one proper sub-expression (A in e1, B in e2) that is
    evaluated before anything else that could have an effect; setter(x) puts x in B's place in e2.  None otherwise."""
    if ast.dump(e1) == ast.dump(e2) or type(e1) is not type(e2) or not isinstance(e1, ast.Call):
        return None
    found = []

    def walk(n1, n2, put, first):
        if ast.dump(n1) == ast.dump(n2):
            return True
        if type(n1) is not type(n2) or not first:
            found.append(None)
            return False
        if isinstance(n1, ast.Call) and ast.dump(n1.func) == ast.dump(n2.func) and _simple_load(n1.func) and len(n1.args) == len(n2.args) \
                and [k.arg for k in n1.keywords] == [k.arg for k in n2.keywords]:
            subs = [(a1, a2, (lambda x, j=j: n2.args.__setitem__(j, x))) for j, (a1, a2) in enumerate(zip(n1.args, n2.args))] + \
                   [(k1.value, k2.value, (lambda x, k2=k2: setattr(k2, 'value', x))) for k1, k2 in zip(n1.keywords, n2.keywords)]
            fst = True
            for a1, a2, p in subs:
                if ast.dump(a1) != ast.dump(a2):
                    if isinstance(a1, ast.Call) and isinstance(a2, ast.Call) and ast.dump(a1.func) == ast.dump(a2.func):
                        walk(a1, a2, p, fst)
                    else:
                        found.append((a1, a2, p) if fst else None)
                fst = fst and _simple_load(a1)
            return False
        found.append(None)
        return False
    walk(e1, e2, None, True)
    if len(found) == 1 and found[0] is not None:
        return found[0]
    return None


def _sinkable(st, x):
    def ends_ok(block):
        if not block:
            return False
        last = block[-1]
        if _single_name_assign(last) == x and isinstance(last, ast.Assign):
            return True
        if isinstance(last, (ast.Return, ast.Raise)):
            return True
        if isinstance(last, ast.If) and last.orelse:
            return ends_ok(last.body) and ends_ok(last.orelse)
        return False
    return ends_ok(st.body) and ends_ok(st.orelse)


def _sink(st, x):
    def go(block):
        last = block[-1]
        if isinstance(last, ast.Assign) and _single_name_assign(last) == x:
            block[-1] = ast.copy_location(ast.Return(value=last.value), last)
        elif isinstance(last, ast.If):
            go(last.body)
            go(last.orelse)
    go(st.body)
    go(st.orelse)


def _pure(e):
    return not any(isinstance(n, (ast.Call, ast.Await, ast.Yield, ast.YieldFrom, ast.NamedExpr)) for n in ast.walk(e))


def _written_names(st):
    """Names a simple statement binds or mutates (assignment targets' roots, append receivers)."""
    out = set()
    if isinstance(st, ast.Assign):
        for t in st.targets:
            for n in ast.walk(t):
                if isinstance(n, ast.Name):
                    out.add(n.id)
    elif isinstance(st, ast.Expr) and isinstance(st.value, ast.Call) and isinstance(st.value.func, ast.Attribute):
        for n in ast.walk(st.value.func.value):
            if isinstance(n, ast.Name):
                out.add(n.id)
    return out


def _simple_independent(st, x):
    """A plain assignment to a name, or an append on another name, that does not mention x."""
    if x in {n.id for n in ast.walk(st) if isinstance(n, ast.Name)}:
        return False
    if isinstance(st, ast.Assign) and len(st.targets) == 1 and isinstance(st.targets[0], ast.Name):
        return True
    if isinstance(st, ast.Expr) and isinstance(st.value, ast.Call) and isinstance(st.value.func, ast.Attribute) \
            and st.value.func.attr == 'append' and isinstance(st.value.func.value, ast.Name) and len(st.value.args) == 1:
        return True
    return False


def _can_hop(arg, k):
    """May the evaluation of `arg` move before statement k?  Yes when k does not write what arg reads and
    one of the two is free of calls (no reordering of two possibly effectful evaluations)."""
    if _written_names(k) & _names_loaded(arg):
        return False
    kval = k.value if isinstance(k, ast.Assign) else k.value.args[0]
    return _pure(arg) or _pure(kval)


def _is_append(st, x):
    return isinstance(st, ast.Expr) and isinstance(st.value, ast.Call) and isinstance(st.value.func, ast.Attribute) \
        and st.value.func.attr == 'append' and isinstance(st.value.func.value, ast.Name) and st.value.func.value.id == x \
        and len(st.value.args) == 1 and not st.value.keywords


def _is_item_store(st, x):
    return isinstance(st, ast.Assign) and len(st.targets) == 1 and isinstance(st.targets[0], ast.Subscript) \
        and isinstance(st.targets[0].value, ast.Name) and st.targets[0].value.id == x \
        and isinstance(st.targets[0].slice, ast.Constant)


def _loop_to_comp(x, loop):
    body = loop.body
    if len(body) == 1 and isinstance(body[0], ast.For) and not body[0].orelse:
        # for a in A: for b in B: x.append(e)   ->   [e for a in A for b in B]
        inner = _loop_to_comp(x, body[0])
        if inner is not None and x not in _names_loaded(loop.iter):
            inner.generators.insert(0, ast.comprehension(target=loop.target, iter=loop.iter, ifs=[], is_async=0))
            return inner
        return None
    if not body or not _is_append(body[-1], x):
        return None
    elt = body[-1].value.args[0]
    temps = body[:-1]
    # temporaries: single plain assignments used only to build the appended value, innermost first
    for t in reversed(temps):
        nm = _single_name_assign(t)
        if nm is None or nm == x:
            return None
        elt = _subst(elt, nm, t.value)
    for t in temps:
        if x in _names_loaded(t):
            return None
    if x in _names_loaded(elt) or x in _names_loaded(loop.iter):
        return None
    # temps must not be used by one another in a way substitution missed (chain handled by reversed order)
    for n in ast.walk(elt):
        if isinstance(n, (ast.Yield, ast.Await, ast.NamedExpr)):
            return None
    return ast.ListComp(elt=elt, generators=[ast.comprehension(target=loop.target, iter=loop.iter, ifs=[], is_async=0)])


def _is_len(e):
    return isinstance(e, ast.Call) and isinstance(e.func, ast.Name) and e.func.id == 'len' and len(e.args) == 1 and not e.keywords


def _is_int(e):
    return isinstance(e, ast.Constant) and type(e.value) is int


def _stmt(st):
    # recurse into compound statements first
    for fld in ('body', 'orelse', 'finalbody'):
        if hasattr(st, fld) and isinstance(getattr(st, fld), list) and getattr(st, fld) and isinstance(getattr(st, fld)[0], ast.stmt):
            setattr(st, fld, _block(getattr(st, fld)))
    if isinstance(st, ast.Try):
        for h in st.handlers:
            h.body = _block(h.body)
    if isinstance(st, ast.If) and len(st.body) == 1 and isinstance(st.test, ast.Compare) and len(st.test.ops) == 1 \
            and isinstance(st.test.ops[0], ast.Is) and isinstance(st.test.left, ast.Name) \
            and isinstance(st.test.comparators[0], ast.Constant) and st.test.comparators[0].value is None \
            and isinstance(st.body[0], ast.Assign) and len(st.body[0].targets) == 1 and isinstance(st.body[0].targets[0], ast.Name) \
            and st.body[0].targets[0].id == st.test.left.id and isinstance(st.body[0].value, ast.Constant) and st.body[0].value.value is None:
        # `if x is None: x = None` assigns what is there already
        if not st.orelse:
            return []
        new = ast.If(test=ast.Compare(left=st.test.left, ops=[ast.IsNot()], comparators=st.test.comparators), body=st.orelse, orelse=[])
        ast.copy_location(new, st)
        ast.fix_missing_locations(new)
        return _stmt(new)
    if isinstance(st, ast.If) and st.orelse and len(st.body) == 1 and isinstance(st.body[0], ast.If) and not st.body[0].orelse \
            and _leaves(st.orelse) and [ast.dump(b_) for b_ in st.body[0].body] == [ast.dump(b_) for b_ in st.orelse]:
        # C22: one refusal on two branches: `if a: [if b: X] else: X` (X leaves) is `if not a or b: X`
        na = _nnf(ast.copy_location(ast.UnaryOp(op=ast.Not(), operand=st.test), st.test))
        vals = (list(na.values) if isinstance(na, ast.BoolOp) and isinstance(na.op, ast.Or) else [na]) + \
               (list(st.body[0].test.values) if isinstance(st.body[0].test, ast.BoolOp) and isinstance(st.body[0].test.op, ast.Or) else [st.body[0].test])
        new = ast.If(test=ast.BoolOp(op=ast.Or(), values=vals), body=st.orelse, orelse=[])
        ast.copy_location(new, st)
        ast.copy_location(new.test, st.test)
        ast.fix_missing_locations(new)
        return _stmt(new)
    if isinstance(st, ast.If) and not st.orelse and len(st.body) == 1 and isinstance(st.body[0], ast.If) and not st.body[0].orelse:
        # C9: `if a: if b: B` (nothing else in either) is `if a and b: B`
        inner = st.body[0]
        vals = (list(st.test.values) if isinstance(st.test, ast.BoolOp) and isinstance(st.test.op, ast.And) else [st.test]) + \
               (list(inner.test.values) if isinstance(inner.test, ast.BoolOp) and isinstance(inner.test.op, ast.And) else [inner.test])
        new = ast.If(test=ast.BoolOp(op=ast.And(), values=vals), body=inner.body, orelse=[])
        ast.copy_location(new, st)
        ast.copy_location(new.test, st.test)
        return _stmt(new)
    if isinstance(st, ast.Return) and isinstance(st.value, ast.IfExp):
        # C11: `return a if c else b` is `if c: return a` / `return b`
        v = st.value
        r1 = ast.copy_location(ast.Return(value=v.body), st)
        r2 = ast.copy_location(ast.Return(value=v.orelse), st)
        new = ast.copy_location(ast.If(test=v.test, body=[r1], orelse=[r2]), st)
        ast.fix_missing_locations(new)
        return _stmt(new)
    if isinstance(st, ast.If) and st.orelse and not (len(st.orelse) == 1 and isinstance(st.orelse[0], ast.If)):
        # C12: `if not c: A else: B` is `if c: B else: A` (the test is kept in its positive spelling)
        t = st.test
        flipped = None
        if isinstance(t, ast.UnaryOp) and isinstance(t.op, ast.Not):
            flipped = t.operand
        elif isinstance(t, ast.Compare) and len(t.ops) == 1 and isinstance(t.ops[0], (ast.NotEq, ast.IsNot, ast.NotIn)):
            op = {ast.NotEq: ast.Eq, ast.IsNot: ast.Is, ast.NotIn: ast.In}[type(t.ops[0])]()
            flipped = ast.copy_location(ast.Compare(left=t.left, ops=[op], comparators=t.comparators), t)
        elif isinstance(t, ast.Compare) and len(t.ops) == 1 and isinstance(t.ops[0], (ast.Lt, ast.LtE)) and _is_len(t.left) and _is_int(t.comparators[0]):
            # a length is an integer: `len(x) <= k` is exactly `not len(x) > k` (the positive spelling is the larger-than one)
            op = {ast.Lt: ast.GtE, ast.LtE: ast.Gt}[type(t.ops[0])]()
            flipped = ast.copy_location(ast.Compare(left=t.left, ops=[op], comparators=t.comparators), t)
        elif isinstance(t, ast.Compare) and len(t.ops) == 1 and isinstance(t.ops[0], (ast.Gt, ast.GtE)) and _is_len(t.comparators[0]) and _is_int(t.left):
            op = {ast.Gt: ast.GtE, ast.GtE: ast.Gt}[type(t.ops[0])]()
            flipped = ast.copy_location(ast.Compare(left=t.comparators[0], ops=[op], comparators=[t.left]), t)
        elif isinstance(t, ast.BoolOp) and isinstance(t.op, ast.Or) and all(
                (isinstance(v, ast.UnaryOp) and isinstance(v.op, ast.Not)) or
                (isinstance(v, ast.Compare) and len(v.ops) == 1 and isinstance(v.ops[0], (ast.NotEq, ast.IsNot, ast.NotIn))) for v in t.values):
            flipped = _nnf(ast.copy_location(ast.UnaryOp(op=ast.Not(), operand=t), t))
        if flipped is not None:
            new = ast.copy_location(ast.If(test=flipped, body=st.orelse, orelse=st.body), st)
            ast.fix_missing_locations(new)
            return _stmt(new)
    if isinstance(st, ast.If):
        # C5: flatten else after a leaving body
        if st.orelse and _leaves(st.body) and not (len(st.orelse) == 1 and isinstance(st.orelse[0], ast.If)):
            rest = st.orelse
            st.orelse = []
            return [st] + rest
        # C1
        if len(st.body) == 1 and len(st.orelse) == 1:
            a, b = _single_name_assign(st.body[0]), _single_name_assign(st.orelse[0])
            if a and a == b:
                new = ast.Assign(targets=[ast.Name(id=a, ctx=ast.Store())],
                                 value=ast.IfExp(test=st.test, body=st.body[0].value, orelse=st.orelse[0].value))
                ast.copy_location(new, st)
                ast.fix_missing_locations(new)
                return _stmt(new)
    if isinstance(st, ast.Assign) and isinstance(st.value, ast.IfExp):
        x = _single_name_assign(st)
        v = st.value
        if x:
            if isinstance(v.orelse, ast.Name) and v.orelse.id == x:
                inner = ast.Assign(targets=st.targets, value=v.body)
                new = ast.If(test=v.test, body=[inner], orelse=[])
                ast.copy_location(inner, st)
                ast.copy_location(new, st)
                ast.fix_missing_locations(new)
                return new
            if isinstance(v.body, ast.Name) and v.body.id == x:
                inner = ast.Assign(targets=st.targets, value=v.orelse)
                new = ast.If(test=ast.UnaryOp(op=ast.Not(), operand=v.test), body=[inner], orelse=[])
                ast.copy_location(inner, st)
                ast.copy_location(new, st)
                ast.fix_missing_locations(new)
                return new
    return st


# ---------------------------------------------------------------------------------------------
# C6-C9: helper functions, tests, constant loops
# ---------------------------------------------------------------------------------------------
def _strip_doc(body):
    if body and isinstance(body[0], ast.Expr) and isinstance(body[0].value, ast.Constant) and isinstance(body[0].value.value, str):
        return body[1:]
    return body


def _merge_returns(body):
    """`if c: return a` [elif ...] `return b`  ->  `return a if c else b` (one expression), else None."""
    body = _strip_doc(body)
    if len(body) == 1 and isinstance(body[0], ast.Return) and body[0].value is not None:
        return body[0].value
    if len(body) == 2 and isinstance(body[0], ast.Assign) and len(body[0].targets) == 1 and isinstance(body[0].targets[0], ast.Tuple) \
            and isinstance(body[0].value, ast.Name) and all(isinstance(e, ast.Name) for e in body[0].targets[0].elts) \
            and isinstance(body[1], ast.Return) and body[1].value is not None:
        # `a, b, c = p` followed by `return f(a, b, c)`  is  `return f(p[0], p[1], p[2])`
        src = body[0].value
        env = {e.id: ast.Subscript(value=ast.Name(id=src.id, ctx=ast.Load()), slice=ast.Constant(value=i), ctx=ast.Load())
               for i, e in enumerate(body[0].targets[0].elts)}
        new = _Subst(env).visit(copy.deepcopy(body[1].value))
        for n in ast.walk(new):
            if not hasattr(n, 'lineno'):
                ast.copy_location(n, body[1])
        return new
    if len(body) >= 1 and isinstance(body[0], ast.If):
        st = body[0]
        a = _merge_returns(st.body)
        if a is None:
            return None
        rest = st.orelse if st.orelse else body[1:]
        if st.orelse and body[1:]:
            return None
        b = _merge_returns(rest)
        if b is None:
            return None
        return ast.IfExp(test=st.test, body=a, orelse=b)
    return None


def _simple_params(f):
    a = f.args
    if a.vararg or a.kwarg or a.posonlyargs or a.kwonlyargs:
        return None
    return [x.arg for x in a.args]


def _has(node, types):
    return any(isinstance(n, types) for n in ast.walk(node))


def _bind_args(f, call, drop_first=False):
    """parameter name -> argument expression for a call of f, or None when it does not fit."""
    params = _simple_params(f)
    if params is None:
        return None
    if drop_first:
        params = params[1:]
    defaults = f.args.defaults
    dmap = dict(zip(params[len(params) - len(defaults):], defaults)) if defaults else {}
    if any(isinstance(a, ast.Starred) for a in call.args) or any(k.arg is None for k in call.keywords):
        return None
    if len(call.args) > len(params):
        return None
    env = dict(zip(params, call.args))
    for k in call.keywords:
        if k.arg not in params or k.arg in env:
            return None
        env[k.arg] = k.value
    for p_ in params:
        if p_ not in env:
            if p_ in dmap:
                env[p_] = dmap[p_]
            else:
                return None
    return env


class _Subst(ast.NodeTransformer):
    def __init__(self, env):
        self.env = env

    def visit_Name(self, n):
        if isinstance(n.ctx, ast.Load) and n.id in self.env:
            return copy.deepcopy(self.env[n.id])
        return n

    def visit_Lambda(self, n):
        shadow = {a.arg for a in n.args.args}
        inner = _Subst({k: v for k, v in self.env.items() if k not in shadow})
        n.body = inner.visit(n.body)
        return n


def _expr_helpers(tree):
    """Private module-level functions, private static/class methods and nested functions whose body is one
    returned expression (possibly spelled as an if-chain of returns): candidates for inlining at call sites."""
    out = {}

    def consider(key, f, drop_first=False):
        if f.name in ANCHORED:
            return
        if f.decorator_list and not all(isinstance(d, ast.Name) and d.id in ('staticmethod', 'classmethod') for d in f.decorator_list):
            return
        if _simple_params(f) is None or _has(f, (ast.Yield, ast.YieldFrom, ast.Await, ast.Global, ast.Nonlocal)):
            return
        e = _merge_returns(f.body)
        if e is None:
            return
        if any(isinstance(n, ast.Name) and n.id == f.name for n in ast.walk(e)):
            return            # recursive
        out[key] = (f, e, drop_first)
    for st in tree.body:
        if isinstance(st, ast.FunctionDef) and st.name.startswith('_') and not st.name.startswith('__'):
            consider(('mod', st.name), st)
        if isinstance(st, ast.ClassDef):
            for m in st.body:
                if isinstance(m, ast.FunctionDef) and m.name.startswith('_') and not m.name.startswith('__'):
                    decs = [d.id for d in m.decorator_list if isinstance(d, ast.Name)]
                    if 'staticmethod' in decs:
                        consider(('cls', st.name, m.name), m)
                    elif 'classmethod' in decs:
                        consider(('cls', st.name, m.name), m, drop_first=True)
    return out


class _InlineExprHelpers(ast.NodeTransformer):
    """C6: a call of a private single-expression helper is replaced by that expression."""
    def __init__(self, helpers, cls=None):
        self.h = helpers
        self.cls = cls
        self.depth = 0

    def visit_ClassDef(self, node):
        old, self.cls = self.cls, node.name
        self.generic_visit(node)
        self.cls = old
        return node

    def visit_Call(self, node):
        self.generic_visit(node)
        key = None
        f = node.func
        if isinstance(f, ast.Name):
            key = ('mod', f.id)
        elif isinstance(f, ast.Attribute) and isinstance(f.value, ast.Name):
            if f.value.id in ('self', 'cls') and self.cls:
                key = ('cls', self.cls, f.attr)
            else:
                key = ('cls', f.value.id, f.attr)
        if key in self.h and self.depth < 4:
            fdef, expr, drop = self.h[key]
            env = _bind_args(fdef, node, drop_first=False if not drop else True)
            if env is not None:
                new = _Subst(env).visit(copy.deepcopy(expr))
                ast.copy_location(new, node)
                for n in ast.walk(new):
                    if not hasattr(n, 'lineno'):
                        ast.copy_location(n, node)
                self.depth += 1
                new = self.visit(new)
                self.depth -= 1
                return new
        return node


# -- C6b: statement-level inlining of private helpers ------------------------------------------------
def _guards_to_else(body):
    """`if c: ...return`  followed by REST  ->  `if c: ...return  else: REST` (so that every return is a tail)."""
    out = []
    for i, st in enumerate(body):
        if isinstance(st, ast.If) and not st.orelse and _leaves(st.body) and isinstance(st.body[-1], ast.Return) and body[i + 1:]:
            new = ast.If(test=st.test, body=st.body, orelse=_guards_to_else(body[i + 1:]))
            ast.copy_location(new, st)
            out.append(new)
            return out
        out.append(st)
    return out


def _tail_returns_only(body):
    """All `return` statements are in tail position (last statement of the body, or of a branch / try part
    that is itself last): then `return E` can be read as `result = E` followed by the end of the block."""
    def tail_ok(stmts, tail):
        for i, st in enumerate(stmts):
            last = tail and i == len(stmts) - 1
            if isinstance(st, ast.Return):
                if not last:
                    return False
            elif isinstance(st, ast.If):
                if not tail_ok(st.body, last) or not tail_ok(st.orelse, last):
                    return False
            elif isinstance(st, ast.Try):
                if st.finalbody and _has(ast.Module(body=st.finalbody, type_ignores=[]), ast.Return):
                    return False
                if not tail_ok(st.body, last and not st.orelse) or not tail_ok(st.orelse, last):
                    return False
                for h in st.handlers:
                    if not tail_ok(h.body, last):
                        return False
            elif isinstance(st, (ast.For, ast.While, ast.With)):
                if _has(st, ast.Return):
                    return False
            elif isinstance(st, (ast.FunctionDef, ast.ClassDef)):
                return False
        return True
    return tail_ok(body, True)


# private functions that rules analyse in their own right (anchors): never inlined into their callers
ANCHORED = {'_name_to_index', '_parse_date_string', '_parse_time_string'}


def _stmt_helpers(tree):
    out = {}

    def consider(key, f, drop_first=False):
        if f.name in ANCHORED:
            return
        if f.decorator_list and not all(isinstance(d, ast.Name) and d.id in ('staticmethod', 'classmethod') for d in f.decorator_list):
            return
        if _simple_params(f) is None or _has(f, (ast.Yield, ast.YieldFrom, ast.Await, ast.Global, ast.Nonlocal, ast.Lambda)):
            return
        body = _guards_to_else(copy.deepcopy(_strip_doc(f.body)))
        if not body or len(body) > 25 or not _tail_returns_only(body):
            return
        if any(isinstance(n, ast.Name) and n.id == f.name for n in ast.walk(ast.Module(body=body, type_ignores=[]))):
            return
        out[key] = (f, body, drop_first)
    for st in tree.body:
        if isinstance(st, ast.FunctionDef) and st.name.startswith('_') and not st.name.startswith('__'):
            consider(('mod', st.name), st)
        if isinstance(st, ast.ClassDef):
            for m in st.body:
                if isinstance(m, ast.FunctionDef) and m.name.startswith('_') and not m.name.startswith('__'):
                    decs = [d.id for d in m.decorator_list if isinstance(d, ast.Name)]
                    if 'staticmethod' in decs:
                        consider(('cls', st.name, m.name), m)
                    elif 'classmethod' in decs:
                        consider(('cls', st.name, m.name), m, drop_first=True)
    return out


class _Rename(ast.NodeTransformer):
    def __init__(self, m):
        self.m = m

    def visit_Name(self, n):
        if n.id in self.m:
            v = self.m[n.id]
            if isinstance(v, str):
                return ast.copy_location(ast.Name(id=v, ctx=n.ctx), n)
            if isinstance(n.ctx, ast.Load):
                return copy.deepcopy(v)
        return n


def _stored_names(stmts):
    out = set()
    for st in stmts:
        for n in ast.walk(st):
            if isinstance(n, ast.Name) and isinstance(n.ctx, (ast.Store, ast.Del)):
                out.add(n.id)
            elif isinstance(n, ast.ExceptHandler) and n.name:
                out.add(n.name)
    return out


def _simple_arg(a):
    if isinstance(a, (ast.Name, ast.Constant)):
        return True
    if isinstance(a, ast.Attribute):
        return _simple_arg(a.value)
    return False


def _nested_stmt_helpers(fn):
    """Nested multi-statement functions of fn that can be inlined where they are called as a statement."""
    out = {}
    for st in ast.walk(fn):
        if isinstance(st, ast.FunctionDef) and st is not fn and not st.decorator_list:
            if _simple_params(st) is None or _has(st, (ast.Yield, ast.YieldFrom, ast.Await, ast.Global, ast.Nonlocal)):
                continue
            if _merge_returns(st.body) is not None:
                continue                      # becomes a lambda (C7)
            body = _guards_to_else(copy.deepcopy(_strip_doc(st.body)))
            if not body or len(body) > 25 or not _tail_returns_only(body):
                continue
            if any(isinstance(n, ast.Name) and n.id == st.name for n in ast.walk(ast.Module(body=body, type_ignores=[]))):
                continue
            out[('mod', st.name)] = (st, body, False)
    return out


def _drop_unused_nested_defs(fn, names):
    used = {n.id for n in ast.walk(fn) if isinstance(n, ast.Name) and isinstance(n.ctx, ast.Load)}

    def walk(stmts):
        out = []
        for st in stmts:
            if isinstance(st, ast.FunctionDef) and st.name in names and st.name not in used:
                continue
            for fld in ('body', 'orelse', 'finalbody'):
                if hasattr(st, fld) and isinstance(getattr(st, fld), list) and getattr(st, fld) and not isinstance(st, (ast.FunctionDef, ast.ClassDef)):
                    setattr(st, fld, walk(getattr(st, fld)) or [ast.copy_location(ast.Pass(), st)])
            if isinstance(st, ast.Try):
                for h in st.handlers:
                    h.body = walk(h.body) or [ast.copy_location(ast.Pass(), st)]
            out.append(st)
        return out
    fn.body = walk(fn.body)


def _inline_stmt_helpers(fn, helpers, cls):
    """Replace `helper(args)`, `x = helper(args)`, `a, b = helper(args)`, `return helper(args)` statements
    by the helper's body (locals named after the call's targets where the helper returns plain names)."""
    helper_defs = {id(v[0]) for v in helpers.values()}

    def own_names(node):
        out = set()
        for ch in ast.iter_child_nodes(node):
            if id(ch) in helper_defs:
                continue                      # the helper's own locals are not the caller's
            if isinstance(ch, ast.Name):
                out.add(ch.id)
            out |= own_names(ch)
        return out
    caller_names = own_names(fn) | {a.arg for a in fn.args.args}
    counter = [0]

    def key_of(call):
        f = call.func
        if isinstance(f, ast.Name):
            return ('mod', f.id)
        if isinstance(f, ast.Attribute) and isinstance(f.value, ast.Name):
            if f.value.id in ('self', 'cls') and cls:
                return ('cls', cls, f.attr)
            return ('cls', f.value.id, f.attr)
        return None

    def expand(st):
        call, mode, targets = None, None, None
        if isinstance(st, ast.Expr) and isinstance(st.value, ast.Call):
            call, mode = st.value, 'expr'
        elif isinstance(st, ast.Assign) and len(st.targets) == 1 and isinstance(st.value, ast.Call):
            call, mode, targets = st.value, 'assign', st.targets[0]
        elif isinstance(st, ast.Return) and isinstance(st.value, ast.Call):
            call, mode = st.value, 'return'
        if call is None:
            return None
        k = key_of(call)
        if k not in helpers:
            return None
        f, body, drop = helpers[k]
        env = _bind_args(f, call, drop_first=drop)
        if env is None:
            return None
        body = copy.deepcopy(body)
        stored = _stored_names(body)
        # names returned by the helper (when it returns plain names / a tuple of plain names)
        rets = [n for n in ast.walk(ast.Module(body=body, type_ignores=[])) if isinstance(n, ast.Return)]
        ren = {}
        if mode == 'assign' and rets:
            tnames = [targets] if isinstance(targets, ast.Name) else (list(targets.elts) if isinstance(targets, (ast.Tuple, ast.List)) else None)
            for r in rets:
                rv = r.value
                rnames = [rv] if isinstance(rv, ast.Name) else (list(rv.elts) if isinstance(rv, ast.Tuple) else None)
                if tnames and rnames and len(tnames) == len(rnames):
                    for t, v in zip(tnames, rnames):
                        if isinstance(t, ast.Name) and isinstance(v, ast.Name) and (v.id in stored or v.id in env):
                            ren.setdefault(v.id, t.id)
        pre = []
        counter[0] += 1
        for p_, a_ in env.items():
            if p_ in ren and isinstance(a_, ast.Name) and a_.id == ren[p_]:
                continue                       # x, i = helper(.., i): the helper's i is the caller's i
            if p_ in stored or not _simple_arg(a_):
                # the helper rebinds its parameter, or the argument is a computed value: keep a local for it
                nm = p_ if (p_ not in caller_names and p_ not in ren.values()) else '_h%d_%s' % (counter[0], p_)
                if p_ in ren:
                    nm = ren[p_]
                asg = ast.Assign(targets=[ast.Name(id=nm, ctx=ast.Store())], value=copy.deepcopy(a_))
                pre.append(ast.copy_location(asg, st))
                ren[p_] = nm
            else:
                ren[p_] = a_
        for l_ in stored:
            if l_ not in ren:
                ren[l_] = l_ if l_ not in caller_names else '_h%d_%s' % (counter[0], l_)
        R = _Rename(ren)
        body = [R.visit(b) for b in body]

        def fix_returns(stmts):
            out = []
            for b in stmts:
                if isinstance(b, ast.Return):
                    if mode == 'return':
                        out.append(b)
                    elif mode == 'assign':
                        tv = b.value if b.value is not None else ast.Constant(value=None)
                        # `x = x` left over from the renaming is dropped
                        if isinstance(targets, ast.Name) and isinstance(tv, ast.Name) and tv.id == targets.id:
                            continue
                        if isinstance(targets, (ast.Tuple, ast.List)) and isinstance(tv, ast.Tuple) and len(tv.elts) == len(targets.elts) \
                                and all(isinstance(x, ast.Name) and isinstance(y, ast.Name) and x.id == y.id for x, y in zip(targets.elts, tv.elts)):
                            continue
                        out.append(ast.copy_location(ast.Assign(targets=[copy.deepcopy(targets)], value=tv), b))
                    else:
                        if b.value is not None and not isinstance(b.value, (ast.Name, ast.Constant)):
                            out.append(ast.copy_location(ast.Expr(value=b.value), b))
                    continue
                for fld in ('body', 'orelse', 'finalbody'):
                    if hasattr(b, fld) and isinstance(getattr(b, fld), list) and not isinstance(b, (ast.FunctionDef, ast.ClassDef)):
                        setattr(b, fld, fix_returns(getattr(b, fld)))
                if isinstance(b, ast.Try):
                    for h in b.handlers:
                        h.body = fix_returns(h.body)
                if isinstance(b, (ast.If,)) and not b.body:
                    b.body = [ast.copy_location(ast.Pass(), b)]
                out.append(b)
            return out
        new = pre + fix_returns(body)
        for b in new:
            for n in ast.walk(b):
                ast.copy_location(n, st) if not hasattr(n, 'lineno') else None
                if hasattr(n, 'lineno'):
                    n.lineno = st.lineno
                    n.end_lineno = getattr(st, 'end_lineno', st.lineno)
        return new or [ast.copy_location(ast.Pass(), st)]

    def walk(stmts, depth=0):
        out = []
        for st in stmts:
            rep = expand(st) if depth < 3 else None
            if rep is not None:
                out.extend(walk(rep, depth + 1))
                continue
            for fld in ('body', 'orelse', 'finalbody'):
                if hasattr(st, fld) and isinstance(getattr(st, fld), list) and not isinstance(st, (ast.FunctionDef, ast.ClassDef)):
                    setattr(st, fld, walk(getattr(st, fld), depth))
            if isinstance(st, ast.Try):
                for h in st.handlers:
                    h.body = walk(h.body, depth)
            out.append(st)
        return out
    fn.body = walk(fn.body)


def _nested_defs_to_lambdas(fn):
    """C7: a nested `def f(args): return expr` (also as an if-chain of returns) is `f = lambda args: expr`."""
    def rewrite(body):
        out = []
        for st in body:
            if isinstance(st, ast.FunctionDef) and not st.decorator_list and _simple_params(st) is not None \
                    and not _has(st, (ast.Yield, ast.YieldFrom, ast.Await, ast.Global, ast.Nonlocal)):
                e = _merge_returns(st.body)
                if e is not None:
                    lam = ast.Lambda(args=st.args, body=e)
                    new = ast.Assign(targets=[ast.Name(id=st.name, ctx=ast.Store())], value=lam)
                    ast.copy_location(new, st)
                    ast.copy_location(lam, st)
                    ast.fix_missing_locations(new)
                    out.append(new)
                    continue
            for fld in ('body', 'orelse', 'finalbody'):
                if hasattr(st, fld) and isinstance(getattr(st, fld), list) and not isinstance(st, (ast.FunctionDef, ast.ClassDef)):
                    setattr(st, fld, rewrite(getattr(st, fld)))
            if isinstance(st, ast.Try):
                for h in st.handlers:
                    h.body = rewrite(h.body)
            out.append(st)
        return out
    fn.body = rewrite(fn.body)


def _nnf(test, neg=False):
    """C8: negations of and/or in test position are pushed inwards (De Morgan); truthiness is all a test uses."""
    if isinstance(test, ast.UnaryOp) and isinstance(test.op, ast.Not):
        return _nnf(test.operand, not neg)
    if isinstance(test, ast.BoolOp):
        op = test.op
        if neg:
            op = ast.Or() if isinstance(op, ast.And) else ast.And()
        new = ast.BoolOp(op=op, values=[_nnf(v, neg) for v in test.values])
        return ast.copy_location(new, test)
    if neg:
        new = ast.UnaryOp(op=ast.Not(), operand=test)
        return ast.copy_location(new, test)
    return test


class _Tests(ast.NodeTransformer):
    def visit_If(self, node):
        self.generic_visit(node)
        node.test = _nnf(node.test)
        return node

    def visit_While(self, node):
        self.generic_visit(node)
        node.test = _nnf(node.test)
        return node

    def visit_IfExp(self, node):
        self.generic_visit(node)
        node.test = _nnf(node.test)
        return node


# -- C10: loops over constant names, getattr/setattr with constant names, aliases of dotted callables -------
def _const_sequences(tree):
    """module-level  X = collections.namedtuple('X', [...])  ->  {'X._fields': [names]}"""
    out = {}
    for st in tree.body:
        if isinstance(st, ast.Assign) and len(st.targets) == 1 and isinstance(st.targets[0], ast.Name) and isinstance(st.value, ast.Call):
            f = st.value.func
            nm = f.attr if isinstance(f, ast.Attribute) else (f.id if isinstance(f, ast.Name) else None)
            if nm == 'namedtuple':
                fl = None
                for k in st.value.keywords:
                    if k.arg == 'field_names':
                        fl = k.value
                if fl is None and len(st.value.args) > 1:
                    fl = st.value.args[1]
                try:
                    v = ast.literal_eval(fl)
                    if isinstance(v, str):
                        v = v.replace(',', ' ').split()
                    out[st.targets[0].id + '._fields'] = list(v)
                except Exception:
                    pass
    return out


def _auto_number(fmt, nargs):
    """'{0}..{1}' with the fields numbered 0..n-1 in order (each once, no other fields) -> '{}..{}'; None otherwise"""
    import string
    try:
        parts = list(string.Formatter().parse(fmt))
    except ValueError:
        return None
    k = 0
    out = []
    for lit, field, spec, conv in parts:
        out.append(lit.replace('{', '{{').replace('}', '}}'))
        if field is None:
            continue
        if field != str(k) or (spec and ('{' in spec)):
            return None
        out.append('{' + ('!' + conv if conv else '') + (':' + spec if spec else '') + '}')
        k += 1
    if k == 0 or k != nargs:
        return None
    return ''.join(out)


class _FoldConst(ast.NodeTransformer):
    """'_' + 'x' -> '_x';  getattr(o, 'x') -> o.x;  setattr(o, 'x', v) as a statement -> o.x = v;
    '{0}{1}'.format(a, b) -> '{}{}'.format(a, b);  [f(k) for k in (c1, c2)] -> [f(c1), f(c2)]"""
    def visit_ListComp(self, n):
        self.generic_visit(n)
        if len(n.generators) == 1:
            g = n.generators[0]
            if not g.ifs and not g.is_async and isinstance(g.target, ast.Name) and isinstance(g.iter, (ast.Tuple, ast.List)) and g.iter.elts \
                    and len(g.iter.elts) <= 8 and all(isinstance(e, ast.Constant) for e in g.iter.elts):
                elts = [_Subst({g.target.id: e}).visit(copy.deepcopy(n.elt)) for e in g.iter.elts]
                return ast.copy_location(ast.List(elts=elts, ctx=ast.Load()), n)
        return n

    def visit_BinOp(self, n):
        self.generic_visit(n)
        if isinstance(n.op, ast.Add) and isinstance(n.left, ast.Constant) and isinstance(n.right, ast.Constant) \
                and isinstance(n.left.value, str) and isinstance(n.right.value, str):
            return ast.copy_location(ast.Constant(value=n.left.value + n.right.value), n)
        return n

    def visit_JoinedStr(self, n):
        self.generic_visit(n)
        if all(isinstance(v, ast.Constant) or (isinstance(v, ast.FormattedValue) and isinstance(v.value, ast.Constant)
                                               and v.conversion == -1 and v.format_spec is None) for v in n.values):
            return ast.copy_location(ast.Constant(value=''.join(str(v.value if isinstance(v, ast.Constant) else v.value.value) for v in n.values)), n)
        return n

    def visit_Call(self, n):
        self.generic_visit(n)
        if isinstance(n.func, ast.Attribute) and n.func.attr == 'format' and isinstance(n.func.value, ast.Constant) \
                and isinstance(n.func.value.value, str) and not n.keywords and not any(isinstance(a, ast.Starred) for a in n.args):
            f2 = _auto_number(n.func.value.value, len(n.args))
            if f2 is not None and f2 != n.func.value.value:
                n.func.value = ast.copy_location(ast.Constant(value=f2), n.func.value)
            return n
        if isinstance(n.func, ast.Name) and n.func.id == 'getattr' and len(n.args) == 2 and not n.keywords \
                and isinstance(n.args[1], ast.Constant) and isinstance(n.args[1].value, str) and n.args[1].value.isidentifier():
            return ast.copy_location(ast.Attribute(value=n.args[0], attr=n.args[1].value, ctx=ast.Load()), n)
        return n

    def visit_Expr(self, n):
        self.generic_visit(n)
        c = n.value
        if isinstance(c, ast.Call) and isinstance(c.func, ast.Name) and c.func.id == 'setattr' and len(c.args) == 3 and not c.keywords \
                and isinstance(c.args[1], ast.Constant) and isinstance(c.args[1].value, str) and c.args[1].value.isidentifier():
            new = ast.Assign(targets=[ast.Attribute(value=c.args[0], attr=c.args[1].value, ctx=ast.Store())], value=c.args[2])
            return ast.copy_location(new, n)
        return n


def _unroll_const_loops(fn, seqs):
    """`for NAME in ('a', 'b', ...): body` (a literal tuple/list of string constants, or the fields of a module-level
    namedtuple) is the body repeated with NAME replaced by each constant."""
    # local names bound once to a literal sequence (`formats = ('a', 'b')`) and never touched again
    lit = {}
    cnt = {}
    for n in ast.walk(fn):
        if isinstance(n, ast.Name) and isinstance(n.ctx, (ast.Store, ast.Del)):
            cnt[n.id] = cnt.get(n.id, 0) + 1
    for n in ast.walk(fn):
        if isinstance(n, ast.Assign) and len(n.targets) == 1 and isinstance(n.targets[0], ast.Name) and isinstance(n.value, (ast.Tuple, ast.List)) \
                and cnt.get(n.targets[0].id) == 1 and n.targets[0].id not in {a.arg for a in fn.args.args}:
            nm_ = n.targets[0].id
            lit[nm_] = n.value

    def simple(e):
        return isinstance(e, ast.Constant) or (isinstance(e, ast.Attribute) and simple(e.value)) or isinstance(e, ast.Name) \
            or (isinstance(e, ast.UnaryOp) and simple(e.operand))

    def seq_of(it, target):
        """list of {target name: AST value} environments, one per iteration, or None"""
        if isinstance(it, ast.Name) and it.id in lit:
            # only when every use of the name is as the sequence of a for loop (it is not handed out or mutated)
            uses = [x for x in ast.walk(fn) if isinstance(x, ast.Name) and x.id == it.id and isinstance(x.ctx, ast.Load)]
            fors = [f_ for f_ in ast.walk(fn) if isinstance(f_, ast.For) and isinstance(f_.iter, ast.Name) and f_.iter.id == it.id]
            if len(uses) == len(fors):
                it = lit[it.id]
        if isinstance(target, ast.Name):
            if isinstance(it, (ast.Tuple, ast.List)) and it.elts and all(isinstance(e, ast.Constant) and isinstance(e.value, str) for e in it.elts):
                return [{target.id: e} for e in it.elts]
            if isinstance(it, ast.Attribute) and isinstance(it.value, ast.Name) and (it.value.id + '.' + it.attr) in seqs:
                return [{target.id: ast.Constant(value=v)} for v in seqs[it.value.id + '.' + it.attr]]
        if isinstance(target, ast.Tuple) and all(isinstance(t, ast.Name) for t in target.elts) and isinstance(it, (ast.Tuple, ast.List)) and it.elts:
            # for a, b in (('x', 1), ('y', np.nan)): rows of constants / module attributes
            rows = []
            for row in it.elts:
                if not (isinstance(row, (ast.Tuple, ast.List)) and len(row.elts) == len(target.elts) and all(simple(e) for e in row.elts)
                        and any(isinstance(e, ast.Constant) and isinstance(e.value, str) for e in row.elts)):
                    return None
                rows.append({t.id: e for t, e in zip(target.elts, row.elts)})
            return rows
        return None

    def walk(stmts):
        out = []
        for st in stmts:
            for fld in ('body', 'orelse', 'finalbody'):
                if hasattr(st, fld) and isinstance(getattr(st, fld), list) and not isinstance(st, (ast.FunctionDef, ast.ClassDef)):
                    setattr(st, fld, walk(getattr(st, fld)))
            if isinstance(st, ast.Try):
                for h in st.handlers:
                    h.body = walk(h.body)
            if isinstance(st, ast.For) and not st.orelse and isinstance(st.target, (ast.Name, ast.Tuple)):
                vals = seq_of(st.iter, st.target)
                tnames = {n.id for n in ast.walk(st.target) if isinstance(n, ast.Name)}
                body_ok = vals is not None and len(vals) <= 40 and not _has(ast.Module(body=st.body, type_ignores=[]), (ast.Break, ast.Continue)) \
                    and not (tnames & _stored_names(st.body))
                if body_ok:
                    for kk, v in enumerate(vals):
                        for b in st.body:
                            nb = _Subst({k_: copy.deepcopy(e_) for k_, e_ in v.items()}).visit(copy.deepcopy(b))
                            nb = _FoldConst().visit(nb)
                            for n in ast.walk(nb):
                                if hasattr(n, 'lineno'):
                                    # all copies sit on the loop's line; the column keeps them in iteration order
                                    n.col_offset = 10000 * (kk + 1) + 100 * (n.lineno - st.lineno) + min(getattr(n, 'col_offset', 0), 99)
                                    n.lineno = st.lineno
                                    n.end_lineno = getattr(st, 'end_lineno', st.lineno)
                            out.append(nb)
                    continue
            out.append(st)
        return out
    fn.body = walk(fn.body)


def _propagate_aliases(fn, module_names):
    """`f = a.b.c` (assigned once, `a` a module-level name that the function never rebinds) : uses of `f` are `a.b.c`."""
    counts = {}
    cand = {}
    for n in ast.walk(fn):
        if isinstance(n, ast.Name) and isinstance(n.ctx, (ast.Store, ast.Del)):
            counts[n.id] = counts.get(n.id, 0) + 1
        if isinstance(n, (ast.FunctionDef, ast.Lambda)) and n is not fn:
            for a in n.args.args:
                counts[a.arg] = counts.get(a.arg, 0) + 1
    params = {a.arg for a in fn.args.args + fn.args.kwonlyargs}
    for st in ast.walk(fn):
        if isinstance(st, ast.Assign) and len(st.targets) == 1 and isinstance(st.targets[0], ast.Name) and isinstance(st.value, ast.Attribute):
            chain = st.value
            while isinstance(chain, ast.Attribute):
                chain = chain.value
            nm = st.targets[0].id
            if isinstance(chain, ast.Name) and chain.id in module_names and chain.id not in counts and chain.id not in params \
                    and counts.get(nm) == 1 and nm not in params:
                cand[nm] = st
    if not cand:
        return

    class P(ast.NodeTransformer):
        def visit_Name(self, n):
            if isinstance(n.ctx, ast.Load) and n.id in cand:
                return ast.copy_location(copy.deepcopy(cand[n.id].value), n)
            return n
    drop = {id(v) for v in cand.values()}

    def walk(stmts):
        out = []
        for st in stmts:
            if id(st) in drop:
                continue
            for fld in ('body', 'orelse', 'finalbody'):
                if hasattr(st, fld) and isinstance(getattr(st, fld), list) and getattr(st, fld) and not isinstance(st, (ast.FunctionDef, ast.ClassDef)):
                    setattr(st, fld, walk(getattr(st, fld)) or [ast.copy_location(ast.Pass(), st)])
            if isinstance(st, ast.Try):
                for h in st.handlers:
                    h.body = walk(h.body) or [ast.copy_location(ast.Pass(), st)]
            out.append(st)
        return out
    fn.body = walk(fn.body)
    P().visit(fn)


# -- C15: pure temporaries written out; parallel assignments of plain values split ------------------------------
_PURE_CALLS = {'isinstance', 'hasattr', 'callable', 'len'}
_MUTATORS = {'append', 'extend', 'insert', 'pop', 'remove', 'sort', 'reverse', 'update', 'clear', 'fill', 'setdefault', 'popitem',
             'resize', 'put', 'itemset', 'seek', 'read', 'readline', 'write', 'close'}


def _pure_atom(e):
    if isinstance(e, (ast.Name, ast.Constant)):
        return True
    if isinstance(e, ast.Attribute):
        return _pure_atom(e.value)
    if isinstance(e, ast.Subscript):
        return _pure_atom(e.value) and isinstance(e.slice, (ast.Name, ast.Constant))
    if isinstance(e, ast.Tuple):
        return all(_pure_atom(x) for x in e.elts)
    if isinstance(e, ast.Call):
        return isinstance(e.func, ast.Name) and e.func.id in _PURE_CALLS and not e.keywords and all(_pure_atom(a) for a in e.args)
    return False


def _pure_test(e):
    if isinstance(e, ast.Compare):
        return _pure_atom(e.left) and all(_pure_atom(c) for c in e.comparators)
    if isinstance(e, ast.BoolOp):
        return all(_pure_test(v) or _pure_atom(v) for v in e.values)
    if isinstance(e, ast.UnaryOp) and isinstance(e.op, ast.Not):
        return _pure_test(e.operand) or _pure_atom(e.operand)
    return False


def _inlinable_value(e):
    # lookups of an attribute (`a.b.c`) and side-effect-free tests; item lookups and lengths keep their names
    if isinstance(e, ast.Attribute):
        return _simple_load(e)
    if isinstance(e, ast.Subscript) and isinstance(e.value, ast.Attribute) and e.value.attr == 'shape' and _simple_load(e.value) \
            and isinstance(e.slice, ast.Constant) and type(e.slice.value) is int:
        return True            # one extent of an array: x.shape[k]
    if isinstance(e, ast.Call):
        return isinstance(e.func, ast.Name) and e.func.id in ('isinstance', 'hasattr', 'callable') and _pure_atom(e)
    return _pure_test(e)


def _roots(e):
    return {n.id for n in ast.walk(e) if isinstance(n, ast.Name)}


def _touches(st, roots):
    """may the statement rebind one of the names or modify what it refers to?"""
    for n in ast.walk(st):
        if isinstance(n, ast.Name) and isinstance(n.ctx, (ast.Store, ast.Del)) and n.id in roots:
            return True
        if isinstance(n, (ast.Attribute, ast.Subscript)) and isinstance(n.ctx, (ast.Store, ast.Del)):
            r = n
            while isinstance(r, (ast.Attribute, ast.Subscript)):
                r = r.value
            if isinstance(r, ast.Name) and r.id in roots:
                return True
        if isinstance(n, ast.Call) and isinstance(n.func, ast.Attribute) and n.func.attr in _MUTATORS:
            r = n.func.value
            while isinstance(r, (ast.Attribute, ast.Subscript)):
                r = r.value
            if isinstance(r, ast.Name) and r.id in roots:
                return True
    return False


def _inline_pure_temps(fn):
    """`t = E` (t bound once, E a side-effect-free lookup or test whose operands nothing touches before the last use of t,
    every use of t later in the same block, none inside a nested function): uses of t are E."""
    changed = True
    rounds = 0
    while changed and rounds < 20:
        changed = False
        rounds += 1
        counts = {}
        for n in ast.walk(fn):
            if isinstance(n, ast.Name) and isinstance(n.ctx, (ast.Store, ast.Del)):
                counts[n.id] = counts.get(n.id, 0) + 1
            elif isinstance(n, (ast.FunctionDef, ast.Lambda)) and n is not fn:
                for a in n.args.args + n.args.kwonlyargs:
                    counts[a.arg] = counts.get(a.arg, 0) + 2
            elif isinstance(n, (ast.Global, ast.Nonlocal)):
                for nm in n.names:
                    counts[nm] = counts.get(nm, 0) + 2
            elif isinstance(n, ast.ExceptHandler) and n.name:
                counts[n.name] = counts.get(n.name, 0) + 2
        params = {a.arg for a in fn.args.args + fn.args.kwonlyargs} | ({fn.args.vararg.arg} if fn.args.vararg else set()) | \
                 ({fn.args.kwarg.arg} if fn.args.kwarg else set())
        nested_loads = set()
        for n in ast.walk(fn):
            if isinstance(n, (ast.FunctionDef, ast.Lambda)) and n is not fn:
                for m in ast.walk(n):
                    if isinstance(m, ast.Name) and isinstance(m.ctx, ast.Load):
                        nested_loads.add(m.id)
        total_loads = {}
        for n in ast.walk(fn):
            if isinstance(n, ast.Name) and isinstance(n.ctx, ast.Load):
                total_loads[n.id] = total_loads.get(n.id, 0) + 1

        def blocks(node):
            for fld in ('body', 'orelse', 'finalbody'):
                b = getattr(node, fld, None)
                if isinstance(b, list) and b and isinstance(b[0], ast.stmt):
                    yield b
                    for st in b:
                        if not isinstance(st, (ast.FunctionDef, ast.ClassDef)):
                            for x in blocks(st):
                                yield x
            if isinstance(node, ast.Try):
                for h in node.handlers:
                    yield h.body
                    for st in h.body:
                        for x in blocks(st):
                            yield x
        for b in blocks(fn):
            for i, st in enumerate(b):
                t = _single_name_assign(st)
                if not t or counts.get(t) != 1 or t in params or t in nested_loads or not _inlinable_value(st.value):
                    continue
                roots = _roots(st.value)
                if t in roots:
                    continue
                # uses: all in later statements of this block, and nothing in between touches the operands
                later = b[i + 1:]
                n_later = sum(1 for s_ in later for n in ast.walk(s_) if isinstance(n, ast.Name) and n.id == t and isinstance(n.ctx, ast.Load))
                if n_later != total_loads.get(t, 0) or n_later == 0:
                    continue
                last = max(j for j, s_ in enumerate(later) if any(isinstance(n, ast.Name) and n.id == t for n in ast.walk(s_)))
                if any(_touches(s_, roots) for s_ in later[:last + 1]):
                    continue
                # inside a loop the definition is re-evaluated with the loop's current values: fine, uses follow it
                for j in range(last + 1):
                    later[j] = _Subst({t: st.value}).visit(later[j])
                b[i + 1:] = later
                del b[i]
                changed = True
                break
            if changed:
                break


def _split_parallel(fn):
    """`a, b = x, y` with plain names / constants on the right that the targets do not rebind is `a = x; b = y`."""
    def walk(stmts):
        out = []
        for st in stmts:
            for fld in ('body', 'orelse', 'finalbody'):
                if hasattr(st, fld) and isinstance(getattr(st, fld), list) and getattr(st, fld) and not isinstance(st, (ast.FunctionDef, ast.ClassDef)):
                    setattr(st, fld, walk(getattr(st, fld)))
            if isinstance(st, ast.Try):
                for h in st.handlers:
                    h.body = walk(h.body)
            if isinstance(st, ast.Assign) and len(st.targets) == 1 and isinstance(st.targets[0], ast.Tuple) and isinstance(st.value, ast.Tuple) \
                    and len(st.targets[0].elts) == len(st.value.elts) and not any(isinstance(x, ast.Starred) for x in st.targets[0].elts + st.value.elts):
                tg, vs = st.targets[0].elts, st.value.elts
                stored = {n.id for t_ in tg for n in ast.walk(t_) if isinstance(n, ast.Name) and isinstance(n.ctx, ast.Store)}
                plain = all(isinstance(v, (ast.Name, ast.Constant)) or (isinstance(v, ast.Attribute) and _simple_load(v)) for v in vs)
                if plain and all(isinstance(t_, (ast.Name, ast.Attribute)) for t_ in tg) and not (stored & {n.id for v in vs for n in ast.walk(v) if isinstance(n, ast.Name)}) \
                        and not any(isinstance(t_, ast.Attribute) for t_ in tg) or (plain and all(isinstance(v, (ast.Name, ast.Constant)) for v in vs)
                                                                                     and not (stored & {v.id for v in vs if isinstance(v, ast.Name)})
                                                                                     and all(isinstance(t_, (ast.Name, ast.Attribute)) for t_ in tg)):
                    for k, (t_, v) in enumerate(zip(tg, vs)):
                        new = ast.Assign(targets=[t_], value=v)
                        ast.copy_location(new, st)
                        new.col_offset = getattr(st, 'col_offset', 0) + k
                        out.append(new)
                    continue
            out.append(st)
        return out
    fn.body = walk(fn.body)


# -- C18: private module constants written out; %-formatting of integers spelled with str.format -------------------
def _private_constants(tree):
    """module-level `_NAME = <literal>` bound once and never rebound or modified anywhere in the module"""
    cand = {}
    for st in tree.body:
        if isinstance(st, ast.Assign) and len(st.targets) == 1 and isinstance(st.targets[0], ast.Name) and st.targets[0].id.startswith('_') \
                and not st.targets[0].id.startswith('__'):
            try:
                ast.literal_eval(st.value)
            except Exception:
                continue
            cand[st.targets[0].id] = st
    if not cand:
        return {}
    stores = {}
    for n in ast.walk(tree):
        if isinstance(n, ast.Name) and isinstance(n.ctx, (ast.Store, ast.Del)):
            stores[n.id] = stores.get(n.id, 0) + 1
        elif isinstance(n, (ast.Global, ast.Nonlocal)):
            for nm in n.names:
                stores[nm] = stores.get(nm, 0) + 2
        elif isinstance(n, ast.arg):
            stores[n.arg] = stores.get(n.arg, 0) + 2
    out = {}
    for nm, st in cand.items():
        if stores.get(nm) == 1 and not any(_touches(x, {nm}) for x in tree.body if x is not st):
            out[nm] = st.value
    return out


_PCT = None


def _percent_to_format(node, int_names):
    """`'..%d..' % x` -> `'..{}..'.format(x)` for integer x (`%05d` -> `{:05d}`); None when not of that kind"""
    import re
    if not (isinstance(node, ast.BinOp) and isinstance(node.op, ast.Mod) and isinstance(node.left, ast.Constant) and isinstance(node.left.value, str)):
        return None
    args = list(node.right.elts) if isinstance(node.right, ast.Tuple) else [node.right]
    if any(isinstance(a, (ast.Starred, ast.Dict)) for a in args):
        return None
    fmt = node.left.value
    parts = re.split(r'(%%|%[0-9]*d|%.)', fmt)
    out, k = [], 0
    for p_ in parts:
        if p_ == '%%':
            out.append('%')
        elif re.fullmatch(r'%[0-9]*d', p_):
            if k >= len(args) or not _int_expr(args[k], int_names):
                return None
            spec = p_[1:-1]
            out.append('{}' if not spec else '{:%sd}' % spec)
            k += 1
        elif p_.startswith('%') and len(p_) == 2:
            return None
        else:
            if '%' in p_:
                return None
            out.append(p_.replace('{', '{{').replace('}', '}}'))
    if k != len(args):
        return None
    new = ast.Call(func=ast.Attribute(value=ast.Constant(value=''.join(out)), attr='format', ctx=ast.Load()), args=args, keywords=[])
    return ast.copy_location(new, node)


def _int_expr(e, int_names):
    if isinstance(e, ast.Constant):
        return type(e.value) is int
    if isinstance(e, ast.Name):
        return e.id in int_names
    if isinstance(e, ast.BinOp) and isinstance(e.op, (ast.Add, ast.Sub, ast.Mult, ast.FloorDiv, ast.Mod)):
        return _int_expr(e.left, int_names) and _int_expr(e.right, int_names)
    if isinstance(e, ast.UnaryOp) and isinstance(e.op, (ast.USub, ast.UAdd)):
        return _int_expr(e.operand, int_names)
    if isinstance(e, ast.Call) and isinstance(e.func, ast.Name) and e.func.id in ('int', 'len') and not e.keywords and len(e.args) == 1:
        return True
    return False


def _int_names(fn):
    """names every binding of which is a counter: target of a loop / comprehension over range(...), or the index of enumerate(...)"""
    good, bad = set(), set()
    params = {a.arg for a in ast.walk(fn) if isinstance(a, ast.arg)}

    def over(target, it):
        if isinstance(it, ast.Call) and isinstance(it.func, ast.Name):
            if it.func.id == 'range' and isinstance(target, ast.Name):
                return {target.id}
            if it.func.id == 'enumerate' and isinstance(target, ast.Tuple) and target.elts and isinstance(target.elts[0], ast.Name):
                return {target.elts[0].id}
        return set()
    counted = set()
    for n in ast.walk(fn):
        if isinstance(n, ast.For):
            g = over(n.target, n.iter)
            good |= g
            counted |= {id(x) for x in ast.walk(n.target) if isinstance(x, ast.Name) and x.id in g}
        elif isinstance(n, ast.comprehension):
            g = over(n.target, n.iter)
            good |= g
            counted |= {id(x) for x in ast.walk(n.target) if isinstance(x, ast.Name) and x.id in g}
    for n in ast.walk(fn):
        if isinstance(n, ast.Name) and isinstance(n.ctx, (ast.Store, ast.Del)) and id(n) not in counted:
            bad.add(n.id)
    return good - bad - params


class _Percent(ast.NodeTransformer):
    def __init__(self, int_names):
        self.int_names = int_names

    def visit_BinOp(self, n):
        self.generic_visit(n)
        r = _percent_to_format(n, self.int_names)
        return r if r is not None else n


# -- C20: consecutive exception handlers with one body are one handler of the tuple of their types ------------------
class _MergeHandlers(ast.NodeTransformer):
    def visit_Try(self, node):
        self.generic_visit(node)
        out = []
        for h in node.handlers:
            prev = out[-1] if out else None
            if prev is not None and h.type is not None and prev.type is not None and h.name == prev.name \
                    and [ast.dump(b) for b in h.body] == [ast.dump(b) for b in prev.body]:
                pts = list(prev.type.elts) if isinstance(prev.type, ast.Tuple) else [prev.type]
                hts = list(h.type.elts) if isinstance(h.type, ast.Tuple) else [h.type]
                prev.type = ast.copy_location(ast.Tuple(elts=pts + hts, ctx=ast.Load()), prev.type)
                continue
            out.append(h)
        node.handlers = out
        return node


def canonicalize(tree):
    """In-place canonicalisation of a module (function and method bodies, nested ones included)."""
    helpers = _expr_helpers(tree)
    if helpers:
        _InlineExprHelpers(helpers).visit(tree)
    sh = {k: v for k, v in _stmt_helpers(tree).items() if k not in helpers}
    for st in tree.body:
        fns = [(st, None)] if isinstance(st, ast.FunctionDef) else \
            ([(m, st.name) for m in st.body if isinstance(m, ast.FunctionDef)] if isinstance(st, ast.ClassDef) else [])
        for f_, c_ in fns:
            nh = _nested_stmt_helpers(f_)
            allh = dict(sh)
            allh.update(nh)
            if allh:
                _inline_stmt_helpers(f_, allh, c_)
            if nh:
                _drop_unused_nested_defs(f_, {k[1] for k in nh})
    seqs = _const_sequences(tree)
    module_names = set()
    for st in tree.body:
        if isinstance(st, (ast.Import, ast.ImportFrom)):
            for a in st.names:
                module_names.add((a.asname or a.name).split('.')[0])
    for node in ast.walk(tree):
        if isinstance(node, (ast.FunctionDef, ast.AsyncFunctionDef)):
            _unroll_const_loops(node, seqs)
    _FoldConst().visit(tree)
    for st in tree.body:
        if isinstance(st, ast.FunctionDef):
            _propagate_aliases(st, module_names)
        elif isinstance(st, ast.ClassDef):
            for m in st.body:
                if isinstance(m, ast.FunctionDef):
                    _propagate_aliases(m, module_names)
    for node in ast.walk(tree):
        if isinstance(node, (ast.FunctionDef, ast.AsyncFunctionDef)):
            _nested_defs_to_lambdas(node)
    import os as _os
    consts = _private_constants(tree)
    for st in tree.body:
        fns_ = [st] if isinstance(st, ast.FunctionDef) else ([m for m in st.body if isinstance(m, ast.FunctionDef)] if isinstance(st, ast.ClassDef) else [])
        for f_ in fns_:
            if consts:
                local = {n.id for n in ast.walk(f_) if isinstance(n, ast.Name) and isinstance(n.ctx, (ast.Store, ast.Del))} | \
                        {a.arg for a in ast.walk(f_) if isinstance(a, ast.arg)}
                env = {k: v for k, v in consts.items() if k not in local}
                if env:
                    f_.body = [_Subst(env).visit(b) for b in f_.body]
            _Percent(_int_names(f_)).visit(f_)
            _split_parallel(f_)
            if _os.environ.get('FLOWLINT_INLINE', '1') == '1':
                _inline_pure_temps(f_)
    _Tests().visit(tree)
    _MergeHandlers().visit(tree)
    for node in ast.walk(tree):
        if isinstance(node, (ast.FunctionDef, ast.AsyncFunctionDef)):
            node.body = _block(node.body)
    ast.fix_missing_locations(tree)
    return tree
