"""Statement-level control-flow graph with branch (assume) nodes, dominators, reaching definitions."""
import ast
import networkx as nx


class Node(object):
    __slots__ = ('id', 'kind', 'ast', 'cond', 'val', 'label')

    def __init__(self, id, kind, astnode=None, cond=None, val=None, label=''):
        self.id = id
        self.kind = kind        # entry exit raise stmt test assume for with handler join
        self.ast = astnode
        self.cond = cond        # for assume nodes: the test expression
        self.val = val          # for assume nodes: True/False edge
        self.label = label

    def __repr__(self):
        ln = getattr(self.ast, 'lineno', '')
        return '<%d %s %s%s>' % (self.id, self.kind, ln, (' ' + str(self.val)) if self.kind == 'assume' else '')


class CFG(object):
    def __init__(self, func):
        self.func = func
        self.g = nx.DiGraph()
        self.nodes = []
        self.by_ast = {}          # id(stmt ast) -> node
        self.assume = {}          # id(if/while ast) -> (true node, false node)
        self.parent = {}
        for n in ast.walk(func):
            for c in ast.iter_child_nodes(n):
                self.parent[id(c)] = n
        self.entry = self._new('entry')
        self.exit = self._new('exit')
        self.raise_exit = self._new('raise')
        self._loops = []          # (continue target, break collector list)
        self._handlers = []       # stack of lists of handler entry nodes
        outs = self._block(func.body, [self.entry])
        for o in outs:
            self.g.add_edge(o.id, self.exit.id)
        self._idom = None
        self._ipdom = None

    # -- construction -----------------------------------------------------
    def _new(self, kind, astnode=None, **kw):
        n = Node(len(self.nodes), kind, astnode, **kw)
        self.nodes.append(n)
        self.g.add_node(n.id)
        if astnode is not None and kind in ('stmt', 'test', 'for', 'with', 'try'):
            self.by_ast[id(astnode)] = n
        if self._handlers_active() and kind in ('stmt', 'test', 'for', 'with'):
            self._exc_edges(n)
        return n

    def _handlers_active(self):
        return bool(getattr(self, '_handlers', None))

    def _exc_edges(self, n):
        # any statement inside a try body may transfer control to the handlers of the enclosing tries
        for hs in reversed(self._handlers):
            for h in hs:
                self.g.add_edge(n.id, h.id)

    def _link(self, preds, n):
        for p in preds:
            self.g.add_edge(p.id, n.id)

    def _block(self, stmts, preds):
        for st in stmts:
            preds = self._stmt(st, preds)
        return preds

    def _stmt(self, st, preds):
        if isinstance(st, ast.If):
            t = self._new('test', st)
            self._link(preds, t)
            a_t = self._new('assume', st, cond=st.test, val=True)
            a_f = self._new('assume', st, cond=st.test, val=False)
            self.g.add_edge(t.id, a_t.id)
            self.g.add_edge(t.id, a_f.id)
            self.assume[id(st)] = (a_t, a_f)
            outs = self._block(st.body, [a_t])
            outs += self._block(st.orelse, [a_f])
            return outs
        if isinstance(st, ast.While):
            t = self._new('test', st)
            self._link(preds, t)
            a_t = self._new('assume', st, cond=st.test, val=True)
            a_f = self._new('assume', st, cond=st.test, val=False)
            self.g.add_edge(t.id, a_t.id)
            self.g.add_edge(t.id, a_f.id)
            self.assume[id(st)] = (a_t, a_f)
            brk = []
            self._loops.append((t, brk))
            outs = self._block(st.body, [a_t])
            self._loops.pop()
            self._link(outs, t)
            return self._block(st.orelse, [a_f]) + brk
        if isinstance(st, (ast.For, ast.AsyncFor)):
            f = self._new('for', st)
            self._link(preds, f)
            body_in = self._new('join', st, label='for-body')
            done = self._new('join', st, label='for-done')
            self.g.add_edge(f.id, body_in.id)
            self.g.add_edge(f.id, done.id)
            brk = []
            self._loops.append((f, brk))
            outs = self._block(st.body, [body_in])
            self._loops.pop()
            self._link(outs, f)
            return self._block(st.orelse, [done]) + brk
        if isinstance(st, (ast.With, ast.AsyncWith)):
            w = self._new('with', st)
            self._link(preds, w)
            return self._block(st.body, [w])
        if isinstance(st, ast.Try):
            t = self._new('try', st)
            self._link(preds, t)
            hnodes = [self._new('handler', h) for h in st.handlers]
            self._handlers.append(hnodes)
            outs = self._block(st.body, [t])
            self._handlers.pop()
            outs = self._block(st.orelse, outs)
            for h, hn in zip(st.handlers, hnodes):
                if self._handlers:
                    self._exc_edges(hn)
                outs = outs + self._block(h.body, [hn])
            if st.finalbody:
                outs = self._block(st.finalbody, outs)
            return outs
        if isinstance(st, ast.Return):
            n = self._new('stmt', st)
            self._link(preds, n)
            self.g.add_edge(n.id, self.exit.id)
            return []
        if isinstance(st, ast.Raise):
            n = self._new('stmt', st)
            self._link(preds, n)
            self.g.add_edge(n.id, self.raise_exit.id)
            return []
        if isinstance(st, ast.Break):
            n = self._new('stmt', st)
            self._link(preds, n)
            if self._loops:
                self._loops[-1][1].append(n)
            return []
        if isinstance(st, ast.Continue):
            n = self._new('stmt', st)
            self._link(preds, n)
            if self._loops:
                self.g.add_edge(n.id, self._loops[-1][0].id)
            return []
        # simple statement (incl. nested def/class, which are opaque here)
        n = self._new('stmt', st)
        self._link(preds, n)
        return [n]

    # -- queries ------------------------------------------------------------
    def node_of(self, stmt):
        return self.by_ast.get(id(stmt))

    def stmt_of(self, node):
        """Innermost statement AST containing an arbitrary AST node of this function."""
        cur = node
        while cur is not None and not isinstance(cur, ast.stmt):
            cur = self.parent.get(id(cur))
        return cur

    def node_containing(self, astnode):
        """CFG node whose evaluation contains `astnode` (for If/While: the test node if it lies in the
        test, for For: the for node if it lies in iter/target)."""
        st = self.stmt_of(astnode)
        while st is not None:
            n = self.by_ast.get(id(st))
            if n is not None:
                return n
            st = self.stmt_of(self.parent.get(id(st)))
        return None

    @property
    def idom(self):
        if self._idom is None:
            self._idom = nx.immediate_dominators(self.g, self.entry.id)
        return self._idom

    def reachable(self):
        return set(self.idom)

    def dominates(self, a, b):
        """a, b: Node.  True iff every path entry->b goes through a (b unreachable: vacuous True)."""
        a, b = a.id, b.id
        if b not in self.idom:
            return True
        cur = b
        while True:
            if cur == a:
                return True
            nxt = self.idom.get(cur)
            if nxt is None or nxt == cur:
                return cur == a
            cur = nxt

    def reaches_avoiding(self, src, dst, avoid):
        """Is there a path src->dst that avoids all nodes in `avoid` (Node collections)?"""
        av = {n.id for n in avoid}
        if src.id in av or dst.id in av:
            return False
        seen, stack = {src.id}, [src.id]
        while stack:
            u = stack.pop()
            if u == dst.id:
                return True
            for v in self.g.successors(u):
                if v not in seen and v not in av:
                    seen.add(v)
                    stack.append(v)
        return False

    def succ(self, n):
        return [self.nodes[i] for i in self.g.successors(n.id)]

    def pred(self, n):
        return [self.nodes[i] for i in self.g.predecessors(n.id)]

    def stmt_nodes(self):
        return [n for n in self.nodes if n.kind in ('stmt', 'test', 'for', 'with')]


# ---------------------------------------------------------------------------
# definitions and uses

def target_names(t):
    """Names bound by an assignment target (not names merely mutated through subscript/attribute)."""
    out = []
    if isinstance(t, ast.Name):
        out.append(t.id)
    elif isinstance(t, (ast.Tuple, ast.List)):
        for e in t.elts:
            out += target_names(e)
    elif isinstance(t, ast.Starred):
        out += target_names(t.value)
    return out


def root_name(t):
    """x for x[i].a[j] ..."""
    while isinstance(t, (ast.Subscript, ast.Attribute, ast.Starred)):
        t = t.value
    return t.id if isinstance(t, ast.Name) else None


def node_defs(n):
    """(bound names, in-place modified names) of a CFG node."""
    st = n.ast
    bound, modified = [], []
    if n.kind == 'stmt':
        if isinstance(st, ast.Assign):
            for t in st.targets:
                bound += target_names(t)
                for sub in ([t] if not isinstance(t, (ast.Tuple, ast.List)) else t.elts):
                    if isinstance(sub, (ast.Subscript, ast.Attribute)):
                        r = root_name(sub)
                        if r:
                            modified.append(r)
        elif isinstance(st, ast.AugAssign):
            if isinstance(st.target, ast.Name):
                bound.append(st.target.id)
            else:
                r = root_name(st.target)
                if r:
                    modified.append(r)
        elif isinstance(st, ast.AnnAssign) and st.value is not None:
            bound += target_names(st.target)
        elif isinstance(st, (ast.FunctionDef, ast.ClassDef, ast.AsyncFunctionDef)):
            bound.append(st.name)
        elif isinstance(st, (ast.Import, ast.ImportFrom)):
            for a in st.names:
                bound.append((a.asname or a.name).split('.')[0])
        elif isinstance(st, ast.Delete):
            for t in st.targets:
                if isinstance(t, ast.Name):
                    bound.append(t.id)
                else:
                    r = root_name(t)
                    if r:
                        modified.append(r)
    elif n.kind == 'for':
        bound += target_names(st.target)
    elif n.kind == 'with':
        for it in st.items:
            if it.optional_vars is not None:
                bound += target_names(it.optional_vars)
    elif n.kind == 'handler':
        if st.name:
            bound.append(st.name)
    # walrus
    if n.kind in ('stmt', 'test') and st is not None:
        root = st.test if n.kind == 'test' else st
        for sub in ast.walk(root):
            if isinstance(sub, ast.NamedExpr) and isinstance(sub.target, ast.Name):
                bound.append(sub.target.id)
    return bound, modified


class ReachingDefs(object):
    """Classic reaching definitions over a CFG.  A definition is (name, node id); parameters are
    defined at the entry node."""

    def __init__(self, cfg):
        self.cfg = cfg
        f = cfg.func
        params = [a.arg for a in f.args.posonlyargs + f.args.args + f.args.kwonlyargs]
        if f.args.vararg:
            params.append(f.args.vararg.arg)
        if f.args.kwarg:
            params.append(f.args.kwarg.arg)
        self.params = params
        self.gen = {}
        self.mods = {}
        for n in cfg.nodes:
            b, m = node_defs(n)
            self.gen[n.id] = set(b)
            self.mods[n.id] = set(m)
        self.gen[cfg.entry.id] = set(params)
        self.IN = {n.id: frozenset() for n in cfg.nodes}
        self.OUT = {n.id: frozenset() for n in cfg.nodes}
        self._solve()

    def _solve(self):
        g = self.cfg.g
        work = list(nx.dfs_preorder_nodes(g, self.cfg.entry.id))
        inwork = set(work)
        while work:
            u = work.pop(0)
            inwork.discard(u)
            ins = frozenset().union(*[self.OUT[p] for p in g.predecessors(u)]) if g.in_degree(u) else frozenset()
            killed = self.gen[u]
            out = frozenset(d for d in ins if d[0] not in killed) | frozenset((nm, u) for nm in killed)
            self.IN[u] = ins
            if out != self.OUT[u]:
                self.OUT[u] = out
                for s in g.successors(u):
                    if s not in inwork:
                        work.append(s)
                        inwork.add(s)

    def reaching(self, node, name):
        """CFG nodes whose binding of `name` may reach the start of `node`."""
        return [self.cfg.nodes[i] for (nm, i) in self.IN[node.id] if nm == name]

    def unique_def(self, node, name):
        r = self.reaching(node, name)
        return r[0] if len(r) == 1 else None

    def assigned_value(self, defnode, name):
        """The expression assigned to `name` at `defnode` when it is a plain `name = expr`."""
        st = defnode.ast
        if defnode.kind == 'stmt' and isinstance(st, ast.Assign) and len(st.targets) == 1 \
                and isinstance(st.targets[0], ast.Name) and st.targets[0].id == name:
            return st.value
        # a, b = e1, e2
        if defnode.kind == 'stmt' and isinstance(st, ast.Assign) and len(st.targets) == 1 \
                and isinstance(st.targets[0], (ast.Tuple, ast.List)) \
                and isinstance(st.value, (ast.Tuple, ast.List)) \
                and len(st.targets[0].elts) == len(st.value.elts):
            for t, v in zip(st.targets[0].elts, st.value.elts):
                if isinstance(t, ast.Name) and t.id == name:
                    return v
        # a, b = f(...)  ->  a is f(...)[0]
        if defnode.kind == 'stmt' and isinstance(st, ast.Assign) and len(st.targets) == 1 \
                and isinstance(st.targets[0], (ast.Tuple, ast.List)) \
                and isinstance(st.value, (ast.Call, ast.Name, ast.Attribute, ast.Subscript)):
            for i, t in enumerate(st.targets[0].elts):
                if isinstance(t, ast.Name) and t.id == name:
                    sub = ast.Subscript(value=st.value, slice=ast.Constant(value=i), ctx=ast.Load())
                    return ast.copy_location(sub, st.value)
        return None
