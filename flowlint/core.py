"""flowlint core: loader, obligations, findings, evidence, driver glue.

Static analysis only: nothing from FlowCal is imported or executed.
"""
import ast
import hashlib
import json
import os
import re
import sys
import time

VERIF = os.path.dirname(os.path.dirname(os.path.abspath(__file__)))
MODULES = ['io', 'transform', 'gate', 'stats', 'mef', 'plot', 'excel_ui', '__init__']


class AnalysisError(Exception):
    """A rule met code that does not have the documented structure it decides on (unrecognised idiom,
    missing instance).  Raised inside a property's rules it is reported as a SHAPE violation: the
    construct differs from the documented one and the rule cannot show the difference harmless."""


class AnchorError(AnalysisError):
    """The analysis itself cannot proceed: vanished anchor (module, class, function), unparsable
    source, stale tables, failed self-test.  Always exit 2, never a verdict."""


class ModuleInfo(object):
    def __init__(self, name, path):
        self.name = name
        self.path = path
        with open(path, 'rb') as f:
            raw = f.read()
        self.digest = hashlib.sha256(raw).hexdigest()
        self.src = raw.decode('utf-8')
        self.lines = self.src.split('\n')
        self.tree = ast.parse(self.src, filename=path)
        from . import canon
        canon.canonicalize(self.tree)     # one shape for equivalent statement idioms (see canon.py)
        self.funcs = {}      # qualname -> FunctionDef
        self.classes = {}    # name -> ClassDef
        self.parents = {}
        self.imports = {}    # local alias -> dotted module / object
        self._index()

    def _index(self):
        for node in ast.walk(self.tree):
            for ch in ast.iter_child_nodes(node):
                self.parents[ch] = node

        def visit(body, prefix):
            for st in body:
                if isinstance(st, (ast.FunctionDef, ast.AsyncFunctionDef)):
                    q = prefix + st.name
                    self.funcs[q] = st
                    visit(st.body, q + '.<locals>.')
                elif isinstance(st, ast.ClassDef):
                    self.classes[prefix + st.name] = st
                    visit(st.body, prefix + st.name + '.')
                elif isinstance(st, (ast.If, ast.Try, ast.With, ast.For, ast.While)):
                    for fld in ('body', 'orelse', 'finalbody'):
                        visit(getattr(st, fld, []) or [], prefix)
                    for h in getattr(st, 'handlers', []) or []:
                        visit(h.body, prefix)
        visit(self.tree.body, '')
        for st in ast.walk(self.tree):
            if isinstance(st, ast.Import):
                for a in st.names:
                    if a.asname:
                        self.imports[a.asname] = a.name
                    else:
                        self.imports[a.name.split('.')[0]] = a.name.split('.')[0]
            elif isinstance(st, ast.ImportFrom) and st.module:
                for a in st.names:
                    self.imports[a.asname or a.name] = st.module + '.' + a.name

    def text(self, node):
        return ast.get_source_segment(self.src, node) or ''


class Repo(object):
    def __init__(self, root):
        self.root = os.path.abspath(root)
        self.mods = {}
        pkg = os.path.join(self.root, 'FlowCal')
        if not os.path.isdir(pkg):
            raise AnchorError('package directory %s not found' % pkg)
        for m in MODULES:
            p = os.path.join(pkg, m + '.py')
            if not os.path.isfile(p):
                raise AnchorError('module %s vanished' % p)
            try:
                self.mods[m] = ModuleInfo(m, p)
            except SyntaxError as e:
                raise AnchorError('cannot parse %s: %s' % (p, e))
        self.register_signatures()

    def register_signatures(self):
        """Parameter lists of repository callables (unique by name), for positional/keyword canonicalisation."""
        from . import sym
        sigs, clash = {}, set()
        for m in self.mods.values():
            for q, f in m.funcs.items():
                if '<locals>' in q:
                    continue
                a = f.args
                if a.vararg or a.posonlyargs:
                    continue
                ps = [x.arg for x in a.args]
                parts = q.split('.')
                name = parts[-1]
                if len(parts) == 2:
                    ps = ps[1:] if ps and ps[0] in ('self', 'cls') else ps
                    if name == '__init__':
                        name = parts[0]
                    elif name.startswith('__'):
                        continue
                if name in sigs and sigs[name] != ps:
                    clash.add(name)
                sigs[name] = ps
        for c in clash:
            sigs.pop(c, None)
        # module-qualified spellings decide where two modules define the same name (gate.density2d / plot.density2d)
        for mname, m in self.mods.items():
            for q, f in m.funcs.items():
                a = f.args
                if '<locals>' in q or '.' in q or a.vararg or a.posonlyargs:
                    continue
                sigs[mname + '.' + q] = [x.arg for x in a.args]
        sym.REPO_SIGS.clear()
        sym.REPO_SIGS.update(sigs)
        # third-party callables imported by name (`from scipy.optimize import minimize`): their source name is a root
        for m in self.mods.values():
            for st in m.tree.body:
                if isinstance(st, ast.ImportFrom) and st.module and st.level == 0 and st.module.split('.')[0] in ('numpy', 'scipy', 'pandas', 'matplotlib'):
                    for al in st.names:
                        nm = al.asname or al.name
                        if nm not in sym.EXT_ROOTS and nm != '*':
                            sym.EXT_ROOTS[nm] = st.module + '.' + al.name

    def mod(self, name):
        return self.mods[name]

    def fn(self, qual):
        """'io.FCSData.__getitem__' -> (ModuleInfo, FunctionDef).  A vanished anchor is an AnalysisError."""
        m, _, q = qual.partition('.')
        if m not in self.mods or q not in self.mods[m].funcs:
            raise AnchorError('anchor %s not found in the tree' % qual)
        return self.mods[m], self.mods[m].funcs[q]

    def has_fn(self, qual):
        m, _, q = qual.partition('.')
        return m in self.mods and q in self.mods[m].funcs

    def cls(self, qual):
        m, _, q = qual.partition('.')
        if m not in self.mods or q not in self.mods[m].classes:
            raise AnchorError('anchor class %s not found in the tree' % qual)
        return self.mods[m], self.mods[m].classes[q]

    def digests(self, names=None):
        return {('FlowCal/%s.py' % n): self.mods[n].digest for n in (names or self.mods)}


def norm_stmt(node):
    """Normalised text of a statement/expression: position independent, formatting independent."""
    try:
        s = ast.unparse(node)
    except Exception:
        s = ast.dump(node)
    s = s.split('\n')[0] if isinstance(node, (ast.If, ast.For, ast.While, ast.Try, ast.With,
                                                ast.FunctionDef, ast.ClassDef)) else s
    s = re.sub(r'\s+', ' ', s).strip()
    return s[:200]


class Context(object):
    """Collects obligations of one property check."""

    def __init__(self, pid, repo, tier='quick', seed=0):
        self.pid = pid
        self.repo = repo
        self.tier = tier
        self.seed = seed
        self.obligations = []
        self.violations = []
        self.notes = []
        self.rules = {}
        self.decided = []
        self.not_decided = []
        self.assumptions = []
        self.tables = {}
        self.functions_analysed = set()
        self.counters = {}
        self.consulted = set()
        self.exhaustive = False
        self.t0 = time.time()
        self.ctx_seen = {}
        self.documented = set()
        self.pending_redef = []
        self.ctx_frozen = {}
        self.freeze = os.environ.get('FLOWLINT_FREEZE')
        try:
            self.ctx_table = json.load(open(os.path.join(VERIF, 'flowlint', 'contexts.json')))
        except (IOError, OSError, ValueError):
            self.ctx_table = {}

    # -- run contexts (see rules.context_obligations) ---------------------
    def _ctx_key(self, qual, rule, inst):
        k = '%s|%s|%s' % (qual, rule, inst)
        n = self.ctx_seen.get(k, 0)
        self.ctx_seen[k] = n + 1
        return k if n == 0 else '%s#%d' % (k, n + 1)

    def context_ob(self, fn, rule, inst, st, ctx):
        k = self._ctx_key(fn.qual, rule, inst)
        if self.freeze:
            self.ctx_frozen[k] = ctx
            return
        if k not in self.ctx_table:
            raise AnchorError('no recorded run context for %s (flowlint/contexts.json is stale: tools/freeze_contexts.py)' % k)
        want = self.ctx_table[k]
        ok = any(ctx[r] == want.get(r) for r in ctx)
        detail = ''
        if not ok:
            r = 'as written'
            extra = [c for c in ctx[r] if c not in want[r]]
            missing = [c for c in want[r] if c not in ctx[r]]
            detail = 'documented to run %s; here it %s%s' % (
                ' & '.join(want[r]) or 'unconditionally',
                ('additionally runs only ' + ' & '.join(extra)) if extra else '',
                ((' and ' if extra else '') + 'no longer depends on: ' + ' & '.join(missing)) if missing else '')
        self.ob('CONTEXT', 'runs exactly when documented: %s' % inst, ok, fn.mod, st, fn.qual, detail=detail, key='%s|%s' % (rule, inst))

    def context_returns(self, fn, rule, tables, what='<returns>', inst='the function returns under the documented conditions only'):
        k = self._ctx_key(fn.qual, rule, what)
        got = {r: {c: len(v) for c, v in t.items()} for r, t in tables.items()}
        if self.freeze:
            self.ctx_frozen[k] = got
            return
        if k not in self.ctx_table:
            raise AnchorError('no recorded return contexts for %s (flowlint/contexts.json is stale: tools/freeze_contexts.py)' % k)
        want = self.ctx_table[k]
        if any(got[r] == want.get(r) for r in got):
            self.ob('CONTEXT', inst, True, fn.mod, fn.ast, fn.qual, key='%s|%s' % (rule, what))
            return
        r = 'as written'
        for c in sorted(set(got[r]) | set(want[r])):
            if got[r].get(c, 0) != want[r].get(c, 0):
                node = tables[r][c][0] if c in tables[r] else fn.ast
                self.ob('CONTEXT', inst, False, fn.mod, node, fn.qual,
                        detail='%d statement(s) `%s`; documented: %d' % (got[r].get(c, 0), c, want[r].get(c, 0)),
                        key='%s|%s|%s' % (rule, what, c))

    # -- anchors ---------------------------------------------------------
    def fn(self, qual):
        m, f = self.repo.fn(qual)
        self.functions_analysed.add(qual)
        self.consulted.add(m.name)
        return m, f

    def need(self, cond, msg):
        if not cond:
            raise AnalysisError(msg)
        return cond

    def site(self, mod, node, qual=None):
        return '%s:%d%s' % ('FlowCal/%s.py' % mod.name, getattr(node, 'lineno', 0),
                            (' ' + qual) if qual else '')

    # -- obligations -----------------------------------------------------
    def ob(self, rule, inst, ok, mod=None, node=None, qual=None, detail='', key=None):
        """Register one obligation.  `key` identifies the construct independent of line numbers."""
        site = self.site(mod, node, qual) if (mod is not None and node is not None) else (qual or '')
        stmt = norm_stmt(node) if node is not None else ''
        k = '%s|%s|%s|%s' % (rule, qual or (mod.name if mod else ''), inst, key if key is not None else stmt)
        rec = {'rule': rule, 'instance': inst, 'site': site, 'status': 'discharged' if ok else 'VIOLATED',
               'detail': detail, 'key': k}
        self.obligations.append(rec)
        self.rules[rule] = self.rules.get(rule, 0) + 1
        if not ok:
            self.violations.append(rec)
        return ok

    def floor(self, rule, found, minimum, what=''):
        """A rule that matches fewer instances than were confirmed by hand passes vacuously: refuse."""
        if found < minimum:
            raise AnalysisError('rule %s matched %d instance(s) of %s, fewer than the %d confirmed by reading'
                                % (rule, found, what or 'its pattern', minimum))

    def count(self, name, n=1):
        self.counters[name] = self.counters.get(name, 0) + n

    def note(self, s):
        self.notes.append(s)


def run_rules(cx, pid):
    """Run the property's rules.  A rule that stops because the code lacks the documented structure is a
    SHAPE violation naming the function and the expectation; anchors and internal errors propagate."""
    import importlib
    mod = importlib.import_module('flowlint.props.' + pid.lower())
    try:
        mod.run(cx)
        from . import rules as _rules
        _rules.settle_redefinitions(cx)
    except AnchorError:
        raise
    except AnalysisError as e:
        msg = str(e)
        m = re.match(r'^([A-Za-z_][\w.]*): ', msg)
        fmod = node = qual = None
        if m:
            try:
                fmod, node = cx.repo.fn(m.group(1))
                qual = m.group(1)
            except AnalysisError:
                fmod = node = qual = None
        cx.ob('SHAPE', 'the code has the documented structure the rules decide on', False, fmod, node, qual,
              detail=msg + ' (remaining rules of this property were not evaluated)', key=re.sub(r'\d+', 'N', msg)[:200])


# ---------------------------------------------------------------------------
# known findings

def load_known():
    p = os.path.join(VERIF, 'known_findings.json')
    if not os.path.isfile(p):
        return {'known': [], 'fixed': []}
    with open(p) as f:
        return json.load(f)


def finish(cx, error=None):
    """Print verdict, write evidence and replay files, return the exit status."""
    pid = cx.pid
    if cx.freeze:
        # tools/freeze_contexts.py: record, do not judge
        try:
            cur = json.load(open(cx.freeze))
        except (IOError, OSError, ValueError):
            cur = {}
        for k, v in cx.ctx_frozen.items():
            if k in cur and cur[k] != v:
                print('FREEZE-CONFLICT %s: %s vs %s' % (k, cur[k], v))
            cur[k] = v
        json.dump(cur, open(cx.freeze, 'w'), indent=0, sort_keys=True)
    known = [k for k in load_known().get('known', []) if k.get('property') == pid]
    known_keys = {k['key']: k for k in known}
    unlisted, listed = [], []
    for v in cx.violations:
        (listed if v['key'] in known_keys else unlisted).append(v)
    status = 0
    out = []
    for v in listed:
        out.append('KNOWN-FINDING: property=%s %s' % (pid, known_keys[v['key']].get('what', v['detail'])))
    out_root = getattr(cx, 'out_dir', None) or VERIF
    replay_dir = os.path.join(out_root, 'replay', pid)
    for v in unlisted:
        os.makedirs(replay_dir, exist_ok=True)
        name = hashlib.sha1(v['key'].encode()).hexdigest()[:12] + '.json'
        path = os.path.join(replay_dir, name)
        with open(path, 'w') as f:
            json.dump({'property': pid, 'obligation': v, 'root': cx.repo.root}, f, indent=1)
        out.append('%s: %s [%s] %s -- %s' % (v['site'], v['rule'], v['instance'], v['detail'], v['key']))
        out.append('VIOLATION property=%s replay=%s' % (pid, path))
        status = 1
    if error is not None:
        out.append('ANALYSIS-ERROR property=%s %s' % (pid, error))
        if status == 0:
            status = 2
    n_ob = len(cx.obligations)
    n_ok = n_ob - len(cx.violations)
    distinct = len({(o['rule'], o['instance']) for o in cx.obligations})
    samples = cx.obligations[:6] + [o for o in cx.obligations if o['status'] != 'discharged'][:6]
    ev = {
        'property_id': pid,
        'tier': cx.tier,
        'seed': int(cx.seed),
        'level': 'other',
        'coverage': {
            'explanation': ('static analysis of /repo working tree (no FlowCal code executed): rules %s; '
                            'every obligation is a structural necessary condition of the property, '
                            'decided from the syntax tree / CFG / def-use / abstract domains'
                            % ', '.join('%s x%d' % kv for kv in sorted(cx.rules.items()))),
            'obligations': n_ob,
            'discharged': n_ok,
            'evaluations': max(n_ob, 0),
            'distinct_nontrivial': distinct,
            'rule': 'one evaluation = one rule instance matched at one site of the current tree; '
                    'distinct = distinct (rule, instance) pairs',
            'samples': samples,
            'functions_analysed': sorted(cx.functions_analysed),
            'counters': cx.counters,
            'decided_clauses': cx.decided,
            'not_decided': cx.not_decided,
            'tables': cx.tables,
            'source_digests': cx.repo.digests(sorted(cx.consulted)) if cx.repo else {},
            'exhaustive': bool(cx.exhaustive),
            'checker_cmd': '/venv/bin/python /verif/check %s --tier %s' % (pid, cx.tier),
            'trusted_base': ['CPython ast', 'networkx dominators', 'rule tables in flowlint/props',
                             'third-party calls outside the alias/mutator tables return fresh objects'],
            'notes': cx.notes,
            'known_findings_listed': len(listed),
            'analysis_error': error,
        },
        'assumptions': cx.assumptions,
        'wall_s': round(time.time() - cx.t0, 3),
        'violations': len(unlisted),
    }
    os.makedirs(os.path.join(out_root, 'evidence'), exist_ok=True)
    with open(os.path.join(out_root, 'evidence', pid + '.json'), 'w') as f:
        json.dump(ev, f, indent=1, sort_keys=True, default=str)
    print('%s [%s]: %d obligations, %d discharged, %d violated (%d listed as known), rules: %s, %.2fs'
          % (pid, cx.tier, n_ob, n_ok, len(cx.violations), len(listed),
             ' '.join('%s=%d' % kv for kv in sorted(cx.rules.items())), time.time() - cx.t0))
    for line in out:
        print(line)
    return status
