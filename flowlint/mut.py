"""MUT - flow-sensitive, interprocedural may-alias mutation (effect) analysis.

Abstract value of an expression: which caller-owned objects it may *be* (own), whose array buffer it
may share (buf), and which caller-owned objects are reachable from it (inner).  Origins:
  'F'      fresh, owned by this activation
  'P:x'    the object bound to parameter x itself
  'P:x*'   something reachable from parameter x (element, attribute, metadata)
  'G:n'    module-level object n
A store, in-place operator, mutator call or mutating callee whose target has a non-fresh origin is
an effect on the caller's objects.  Function summaries (effects on parameters, aliasing of the
result) are iterated to a fixpoint over the whole package.
"""
import ast
import re

from .core import AnalysisError, norm_stmt
from .sym import dotted

F = 'F'
FS = frozenset([F])
ARRAY, CONT, SCALAR, CALLABLE = 'array', 'container', 'scalar', 'callable'
ANYKIND = frozenset([ARRAY, CONT, SCALAR])

CONTAINER_MUTATORS = {'append', 'extend', 'insert', 'pop', 'remove', 'clear', 'sort', 'reverse', 'update', 'setdefault',
                      'popitem', 'add', 'discard', 'appendleft', 'popleft', 'difference_update', 'intersection_update',
                      'symmetric_difference_update', '__setitem__', '__delitem__'}
ARRAY_MUTATORS = {'fill', 'resize', 'put', 'itemset', 'partition', 'setflags', 'sort', 'setfield', 'byteswap_inplace'}
VIEW_METHODS = {'view', 'reshape', 'ravel', 'squeeze', 'transpose', 'swapaxes', 'diagonal', 'newbyteorder', '__array__'}
VIEW_ATTRS = {'T', 'flat', 'real', 'imag', 'base', 'mT'}
SCALAR_ATTRS = {'shape', 'ndim', 'dtype', 'size', 'itemsize', 'nbytes', 'name', 'flags', 'strides', '__name__', '__class__',
                'empty', 'columns', 'index', 'x', 'success'}
FRESH_METHODS = {'copy', 'astype', 'flatten', 'tolist', 'tobytes', 'sum', 'mean', 'min', 'max', 'std', 'any', 'all', 'cumsum',
                 'argsort', 'nonzero', 'round', 'clip', 'conj', 'dot', 'format', 'split', 'strip', 'lower', 'upper', 'replace',
                 'join', 'rstrip', 'lstrip', 'startswith', 'endswith', 'index', 'count', 'isdigit', 'decode', 'encode', 'match',
                 'group', 'total_seconds', 'time', 'date', 'read', 'seek', 'close', 'fit', 'predict_proba', 'iterrows', 'rfind',
                 'find', 'item', 'keys'}
ELEMENT_METHODS = {'get', 'values', 'items', 'pop', 'popitem', 'setdefault', '__getitem__', 'popleft'}
INPLACE_NP_FUNCS = {'np.random.shuffle': 0, 'np.put': 0, 'np.copyto': 0, 'np.place': 0, 'np.putmask': 0,
                    'np.fill_diagonal': 0, 'numpy.random.shuffle': 0, 'random.shuffle': 0, 'setattr': 0, 'delattr': 0,
                    'np.put_along_axis': 0, 'np.ndarray.__setitem__': 0, 'np.ndarray.sort': 0, 'np.ndarray.fill': 0}
OVERWRITE_KWARGS = ('overwrite_input', 'overwrite_a', 'overwrite_b', 'overwrite_x', 'overwrite_data', 'inplace')
ALIAS_FUNCS = {'np.asarray', 'np.asanyarray', 'np.ascontiguousarray', 'np.atleast_1d', 'np.atleast_2d', 'np.squeeze', 'np.ravel',
               'np.reshape', 'np.transpose', 'np.broadcast_to', 'np.expand_dims', 'np.swapaxes', 'np.moveaxis', 'np.flipud',
               'np.fliplr', 'np.flip', 'np.ma.masked_where', 'np.ma.masked_array', 'np.ma.array', 'np.require', 'np.diagonal',
               'np.real', 'np.imag', 'np.split', 'np.array_split', 'np.hsplit', 'np.vsplit', 'np.nditer'}
SHALLOW_FUNCS = {'list', 'tuple', 'sorted', 'set', 'frozenset', 'dict', 'copy.copy', 'collections.OrderedDict', 'reversed',
                 'iter', 'enumerate', 'zip', 'map', 'filter', 'six.iteritems', 'six.itervalues', 'six.moves.zip',
                 'collections.deque', 'itertools.chain'}
ARRAY_FUNCS = {'np.ones', 'np.zeros', 'np.empty', 'np.full', 'np.arange', 'np.linspace', 'np.logspace', 'np.logical_and',
               'np.logical_or', 'np.logical_not', 'np.isnan', 'np.isinf', 'np.isfinite', 'np.digitize', 'np.argsort', 'np.cumsum',
               'np.dot', 'np.tile', 'np.repeat', 'np.insert', 'np.append', 'np.roll', 'np.eye', 'np.sort', 'np.unique',
               'np.meshgrid', 'np.histogram2d', 'np.histogram', 'np.interp', 'np.log', 'np.log10', 'np.log2', 'np.exp', 'np.sqrt',
               'np.abs', 'np.sign', 'np.ceil', 'np.floor', 'np.power', 'np.cov', 'np.concatenate', 'np.vstack', 'np.hstack',
               'np.stack', 'np.column_stack', 'np.where', 'np.nonzero', 'np.cos', 'np.sin', 'np.empty_like', 'np.zeros_like',
               'np.ones_like', 'np.array', 'np.copy', 'np.frombuffer', 'np.memmap', 'np.percentile', 'np.diff'}
REDUCTIONS = {'np.all', 'np.any', 'np.sum', 'np.mean', 'np.median', 'np.std', 'np.min', 'np.max', 'np.prod'}
SCALAR_FUNCS = {'len', 'int', 'float', 'str', 'bool', 'abs', 'min', 'max', 'sum', 'any', 'all', 'isinstance', 'hasattr', 'range',
                'round', 'repr', 'print', 'type', 'id', 'callable', 'issubclass', 'hash', 'ord', 'chr', 'divmod', 'pow', 'format',
                'open', 'super', 'six.text_type', 'input'}


class AV(object):
    __slots__ = ('kind', 'own', 'buf', 'inner', 'elem', 'items', 'fields')

    def __init__(self, kind=ANYKIND, own=FS, buf=None, inner=FS, elem=None, items=None, fields=None):
        self.kind = frozenset(kind)
        self.own = frozenset(own)
        self.buf = frozenset(buf if buf is not None else own)
        self.inner = frozenset(inner)
        self.elem = elem
        self.items = tuple(items) if items is not None else None
        self.fields = dict(fields) if fields else None

    def all_tags(self):
        t = set(self.own) | set(self.buf) | set(self.inner)
        if self.elem is not None:
            t |= self.elem.all_tags()
        for x in (self.items or ()):
            t |= x.all_tags()
        for x in (self.fields or {}).values():
            t |= x.all_tags()
        return t

    def reach(self):
        """origins of everything this value is or leads to (used when it gets stored somewhere)"""
        return frozenset(self.all_tags())

    def key(self):
        return (self.kind, self.own, self.buf, self.inner, self.elem.key() if self.elem else None,
                tuple(i.key() for i in self.items) if self.items else None,
                tuple(sorted((repr(k), v.key()) for k, v in self.fields.items())) if self.fields else None)

    def __repr__(self):
        return 'AV(%s own=%s buf=%s inner=%s%s)' % ('/'.join(sorted(self.kind)), sorted(self.own), sorted(self.buf), sorted(self.inner),
                                                   ' elem=%r' % self.elem if self.elem else '')


def fresh(kind=ANYKIND, inner=FS, **kw):
    return AV(kind, FS, FS, inner, **kw)


SCAL = AV([SCALAR])
UNK_FRESH = AV(ANYKIND)


def join(a, b):
    if a is None:
        return b
    if b is None:
        return a
    if a is b:
        return a
    elem = join(a.elem, b.elem) if (a.elem is not None or b.elem is not None) else None
    if (a.elem is None) != (b.elem is None):
        # the side without element information contributes its inner as elements
        other = a if a.elem is None else b
        elem = join(elem, AV(ANYKIND, other.inner, other.inner, other.inner))
    items = None
    if a.items is not None and b.items is not None and len(a.items) == len(b.items):
        items = [join(x, y) for x, y in zip(a.items, b.items)]
    fields = None
    if a.fields and b.fields:
        fields = {k: join(a.fields[k], b.fields[k]) for k in a.fields if k in b.fields}
    inner = a.inner | b.inner
    # dropping structure must not lose origins
    for side in (a, b):
        if side.items is not None and items is None:
            for x in side.items:
                inner |= x.reach()
        if side.fields and not fields:
            for x in side.fields.values():
                inner |= x.reach()
        elif side.fields and fields:
            for k, x in side.fields.items():
                if k not in fields:
                    inner |= x.reach()
    return AV(a.kind | b.kind, a.own | b.own, a.buf | b.buf, inner, elem, items, fields)


def element_of(v):
    """value obtained by iterating / indexing a container-like value"""
    if v.elem is not None:
        e = v.elem
    else:
        e = AV(ANYKIND, v.inner, v.inner, v.inner)
    out = e
    if v.items:
        for x in v.items:
            out = join(out, x)
    if v.fields:
        for x in v.fields.values():
            out = join(out, x)
    if ARRAY in v.kind:
        # rows of an array are views of its buffer with fresh metadata
        row = AV([ARRAY, SCALAR], FS, v.buf, FS)
        out = join(out, row) if (CONT in v.kind or v.elem is not None) else row
    return out


def nonfresh(tags):
    return sorted(t for t in tags if t != F)


# ---------------------------------------------------------------------------
# numpydoc parameter kinds

def doc_kinds(func):
    doc = ast.get_docstring(func) or ''
    out = {}
    m = re.search(r'Parameters\s*\n\s*-+\s*\n(.*?)(\n\s*\n\s*[A-Z][A-Za-z ]+\n\s*-+\s*\n|\Z)', doc, re.S)
    if not m:
        return out
    for line in m.group(1).split('\n'):
        mm = re.match(r'^\s{0,8}(\*{0,2}\w+(?:\s*,\s*\w+)*)\s*:\s*(.+)$', line)
        if not mm or line.startswith(' ' * 12):
            continue
        names, desc = mm.group(1), mm.group(2).lower()
        k = set()
        arr = bool(re.search(r'fcsdata|array|ndarray', desc))
        lst = bool(re.search(r'\blist\b|\bdict\b|\btuple\b|sequence|iterable|\[', desc))
        sca = bool(re.search(r'\bint\b|\bfloat\b|\bbool\b|\bstr\b|number|scalar|\{', desc))
        fun = bool(re.search(r'function|callable', desc))
        if arr and not re.search(r'list of (fcsdata|numpy array|array)s?$', desc.strip()):
            k.add(ARRAY)
        if lst:
            k.add(CONT)
        if sca:
            k.add(SCALAR)
        if fun:
            k.add(CALLABLE)
        if not k:
            k = set(ANYKIND)
        for nm in re.split(r'\s*,\s*', names):
            out[nm.strip('*')] = frozenset(k)
    return out


# ---------------------------------------------------------------------------

class Summary(object):
    def __init__(self):
        self.mut = {}          # param name -> {level: (site description)}
        self.ret = None        # AV over P:* tags
        self.stores = set()    # (for __init__) origins that end up inside self

    def key(self):
        return (tuple(sorted((p, tuple(sorted(l))) for p, l in self.mut.items())), self.ret.key() if self.ret else None,
                tuple(sorted(self.stores)))


class Event(object):
    def __init__(self, qual, node, what, tags, chain=None):
        self.qual, self.node, self.what, self.tags, self.chain = qual, node, what, tags, chain or []


class Program(object):
    """All function definitions of the package with their summaries."""

    def __init__(self, repo, modules=('io', 'transform', 'gate', 'stats', 'mef', 'plot', 'excel_ui')):
        self.repo = repo
        self.funcs = {}        # qual -> (ModuleInfo, FunctionDef, class name or None)
        self.methods = {}      # method name -> [qual]
        self.classes = {}      # 'mod.Class' -> ClassDef
        self.props = {}        # property name -> [qual]
        self.namedtuples = {}  # 'mod.Name' -> fields
        self.module_globals = {}
        for m in modules:
            mod = repo.mod(m)
            self.module_globals[m] = set()
            for st in mod.tree.body:
                if isinstance(st, ast.Assign):
                    for t in st.targets:
                        if isinstance(t, ast.Name):
                            self.module_globals[m].add(t.id)
                            if isinstance(st.value, ast.Call) and (dotted(st.value.func) or '').endswith('namedtuple'):
                                try:
                                    f = None
                                    for k in st.value.keywords:
                                        if k.arg == 'field_names':
                                            f = ast.literal_eval(k.value)
                                    if f is None and len(st.value.args) > 1:
                                        f = ast.literal_eval(st.value.args[1])
                                    self.namedtuples['%s.%s' % (m, t.id)] = list(f)
                                except Exception:
                                    pass
            for q, f in mod.funcs.items():
                if '<locals>' in q:
                    continue
                parts = q.split('.')
                cls = parts[0] if len(parts) == 2 else None
                qual = '%s.%s' % (m, q)
                self.funcs[qual] = (mod, f, cls)
                if cls:
                    is_prop = any(dotted(d) == 'property' for d in f.decorator_list)
                    (self.props if is_prop else self.methods).setdefault(f.name, []).append(qual)
            for cn, c in mod.classes.items():
                self.classes['%s.%s' % (m, cn)] = c
        self.summaries = {q: Summary() for q in self.funcs}
        self.events = {}
        self.returns = {}
        self.unresolved = 0
        self.resolved = 0

    def solve(self, max_rounds=8):
        for r in range(max_rounds):
            changed = False
            for q in sorted(self.funcs):
                an = Analyzer(self, q)
                s = an.run()
                if s.key() != self.summaries[q].key():
                    self.summaries[q] = s
                    changed = True
                self.events[q] = an.events
                self.returns[q] = an.rets
            self.rounds = r + 1
            if not changed:
                break
        return self


GENERIC_METHOD_NAMES = {'copy', 'index', 'view', 'get', 'update', 'append', 'set_params', '__call__', 'tick_values', 'close',
                        'read', 'format', 'items', 'keys', 'values', 'sort', 'pop'}


class Analyzer(object):
    def __init__(self, prog, qual):
        self.prog = prog
        self.qual = qual
        self.mod, self.func, self.cls = prog.funcs[qual]
        self.mname = qual.split('.')[0]
        self.events = []
        self.summary = Summary()
        self.ret = None
        self.rets = []
        self.depth = 0

    # -- setup -------------------------------------------------------------
    def initial_env(self):
        kinds = doc_kinds(self.func)
        env = {}
        a = self.func.args
        params = [x.arg for x in a.posonlyargs + a.args + a.kwonlyargs]
        for i, p in enumerate(params):
            k = kinds.get(p, ANYKIND)
            if i == 0 and self.cls and p in ('self', 'cls'):
                k = frozenset([ARRAY]) if self.cls == 'FCSData' else frozenset([CONT])
            env[p] = AV(k, ['P:' + p], ['P:' + p], ['P:' + p + '*'])
        if a.vararg:
            env[a.vararg.arg] = AV([CONT], FS, FS, ['P:' + a.vararg.arg + '*'])
        if a.kwarg:
            env[a.kwarg.arg] = AV([CONT], FS, FS, ['P:' + a.kwarg.arg + '*'])
        self.params = params
        return env

    def run(self):
        env = self.initial_env()
        self.block(self.func.body, env)
        self.summary.ret = self.ret if self.ret is not None else SCAL
        return self.summary

    # -- effects -------------------------------------------------------------
    def effect(self, node, v, level, what, chain=None):
        """level: 'own' (identity/container storage), 'buf' (array buffer), 'any'."""
        tags = set()
        if level in ('own', 'any'):
            tags |= set(v.own)
        if level in ('buf', 'any'):
            tags |= set(v.buf)
        bad = nonfresh(tags)
        if not bad:
            return
        for t in bad:
            if t.startswith('P:'):
                p = t[2:]
                if p.endswith('*'):
                    self.summary.mut.setdefault(p[:-1], {}).setdefault('inner', what)
                else:
                    self.summary.mut.setdefault(p, {}).setdefault('own' if level == 'own' else ('buf' if level == 'buf' else 'any'), what)
        self.events.append(Event(self.qual, node, what, bad, chain))

    def store_into(self, node, target_av, value_av):
        """value becomes reachable from target (weak update is done by the caller on the env)."""
        if any(t != F for t in target_av.own | target_av.buf):
            pass

    # -- statements ------------------------------------------------------------
    def block(self, stmts, env):
        for st in stmts:
            env = self.stmt(st, env)
            if env is None:
                return None
        return env

    def stmt(self, st, env):
        m = getattr(self, 's_' + type(st).__name__, None)
        if m is None:
            return env
        return m(st, env)

    def s_Expr(self, st, env):
        self.ev(st.value, env)
        return env

    def s_Pass(self, st, env):
        return env

    def s_Assert(self, st, env):
        self.ev(st.test, env)
        return env

    def s_Import(self, st, env):
        return env

    s_ImportFrom = s_Import
    s_Global = s_Import
    s_Nonlocal = s_Import

    def s_Return(self, st, env):
        v = self.ev(st.value, env) if st.value is not None else SCAL
        self.ret = join(self.ret, v)
        self.rets.append((st, v))
        return None

    def s_Raise(self, st, env):
        if st.exc is not None:
            self.ev(st.exc, env)
        return None

    def s_Break(self, st, env):
        return env

    s_Continue = s_Break

    def s_Delete(self, st, env):
        for t in st.targets:
            if isinstance(t, ast.Subscript):
                b = self.ev(t.value, env)
                self.effect(st, b, 'own' if CONT in b.kind and ARRAY not in b.kind else 'any', 'del %s' % norm_stmt(t))
            elif isinstance(t, ast.Attribute):
                b = self.ev(t.value, env)
                self.effect(st, b, 'own', 'del %s' % norm_stmt(t))
            elif isinstance(t, ast.Name):
                env = dict(env)
                env.pop(t.id, None)
        return env

    def s_FunctionDef(self, st, env):
        # nested helper: effects on captured variables count (assumed to be called)
        env = dict(env)
        env[st.name] = AV([CALLABLE], FS, FS, self.captured(st, env))
        sub = dict(env)
        a = st.args
        for x in a.posonlyargs + a.args + a.kwonlyargs:
            sub[x.arg] = UNK_FRESH
        saved = self.ret
        self.block(st.body, sub)
        self.ret = saved
        return env

    s_AsyncFunctionDef = s_FunctionDef

    def s_ClassDef(self, st, env):
        return env

    def captured(self, node, env):
        tags = set([F])
        bound = set()
        if isinstance(node, (ast.Lambda, ast.FunctionDef)):
            bound = {x.arg for x in node.args.args}
        for n in ast.walk(node):
            if isinstance(n, ast.Name) and isinstance(n.ctx, ast.Load) and n.id in env and n.id not in bound:
                tags |= env[n.id].reach()
        return frozenset(tags)

    def s_Assign(self, st, env):
        v = self.ev(st.value, env)
        env = dict(env)
        for t in st.targets:
            self.assign(t, v, env, st)
        return env

    def s_AnnAssign(self, st, env):
        if st.value is None:
            return env
        v = self.ev(st.value, env)
        env = dict(env)
        self.assign(st.target, v, env, st)
        return env

    def assign(self, t, v, env, st):
        if isinstance(t, ast.Name):
            env[t.id] = v
        elif isinstance(t, (ast.Tuple, ast.List)):
            for i, x in enumerate(t.elts):
                if isinstance(x, ast.Starred):
                    self.assign(x.value, AV([CONT], FS, FS, element_of(v).reach()), env, st)
                elif v.items is not None and len(v.items) == len(t.elts):
                    self.assign(x, v.items[i], env, st)
                else:
                    self.assign(x, element_of(v), env, st)
        elif isinstance(t, ast.Subscript):
            b = self.ev(t.value, env)
            self.ev(t.slice, env)
            lvl = 'any'
            if b.kind <= {ARRAY, SCALAR} and ARRAY in b.kind:
                lvl = 'buf'
            elif b.kind <= {CONT}:
                lvl = 'own'
            self.effect(st, b, lvl, 'store `%s`' % norm_stmt(st))
            self.weak_store(t.value, b, v, env, key=self.const_key(t.slice))
        elif isinstance(t, ast.Attribute):
            b = self.ev(t.value, env)
            self.effect(st, b, 'own', 'attribute store `%s`' % norm_stmt(st))
            if isinstance(t.value, ast.Name) and t.value.id == 'self' and self.func.name == '__init__':
                self.summary.stores |= set(v.reach())
            self.weak_store(t.value, b, v, env, key=('.', t.attr))
        elif isinstance(t, ast.Starred):
            self.assign(t.value, v, env, st)

    def const_key(self, s):
        if isinstance(s, ast.Constant) and isinstance(s.value, (int, str)):
            return s.value
        return None

    def weak_store(self, base_expr, b, v, env, key=None):
        """after `base[...] = v` / `base.a = v`: v is reachable from base"""
        if isinstance(base_expr, ast.Name) and base_expr.id in env:
            old = env[base_expr.id]
            fields = dict(old.fields) if old.fields else {}
            if key is not None and not isinstance(key, tuple) and old.own <= FS:
                fields[key] = v                       # strong update of a locally owned container entry
                inner = old.inner
                if key not in (old.fields or {}):
                    inner = old.inner               # other entries unchanged
                env[base_expr.id] = AV(old.kind, old.own, old.buf, inner, old.elem, old.items, fields)
            else:
                if fields and key is not None and key in fields:
                    fields[key] = join(fields[key], v)
                env[base_expr.id] = AV(old.kind, old.own, old.buf, old.inner | v.reach(), old.elem and join(old.elem, v), old.items,
                                       fields or None)
        elif isinstance(base_expr, (ast.Attribute, ast.Subscript)):
            # x.a[i] = v : v becomes reachable from x
            root = base_expr
            while isinstance(root, (ast.Attribute, ast.Subscript)):
                root = root.value
            if isinstance(root, ast.Name) and root.id in env:
                old = env[root.id]
                env[root.id] = AV(old.kind, old.own, old.buf, old.inner | v.reach(), old.elem, old.items, old.fields)

    def s_AugAssign(self, st, env):
        v = self.ev(st.value, env)
        t = st.target
        env = dict(env)
        if isinstance(t, ast.Name):
            cur = env.get(t.id, UNK_FRESH)
            if cur.kind <= {SCALAR, CALLABLE}:
                env[t.id] = SCAL
            else:
                lvl = 'buf' if (ARRAY in cur.kind and CONT not in cur.kind) else ('own' if cur.kind <= {CONT, SCALAR} and CONT in cur.kind else 'any')
                self.effect(st, cur, lvl, 'in-place `%s`' % norm_stmt(st))
                env[t.id] = AV(cur.kind, cur.own, cur.buf, cur.inner | (v.reach() if CONT in cur.kind else frozenset()), cur.elem, cur.items, cur.fields)
        elif isinstance(t, ast.Subscript):
            b = self.ev(t.value, env)
            el = self.ev(ast.Subscript(value=t.value, slice=t.slice, ctx=ast.Load()), env)
            lvl = 'buf' if (ARRAY in b.kind and CONT not in b.kind) else ('own' if b.kind <= {CONT} else 'any')
            self.effect(st, b, lvl, 'store `%s`' % norm_stmt(st))
            if not el.kind <= {SCALAR, CALLABLE} and not (ARRAY in b.kind and CONT not in b.kind):
                self.effect(st, el, 'any', 'in-place update of element `%s`' % norm_stmt(st))
        elif isinstance(t, ast.Attribute):
            b = self.ev(t.value, env)
            self.effect(st, b, 'own', 'attribute update `%s`' % norm_stmt(st))
        return env

    def s_If(self, st, env):
        self.ev(st.test, env)
        e1 = self.block(st.body, dict(env))
        e2 = self.block(st.orelse, dict(env))
        return self.join_env(e1, e2)

    def join_env(self, a, b):
        if a is None:
            return b
        if b is None:
            return a
        out = {}
        for k in set(a) | set(b):
            if k in a and k in b:
                out[k] = join(a[k], b[k])
            else:
                out[k] = a.get(k) or b.get(k)
        return out

    def s_For(self, st, env):
        it = self.ev(st.iter, env)
        cur = dict(env)
        for _ in range(4):
            body_env = dict(cur)
            self.assign(st.target, element_of(it), body_env, st)
            n_ev = len(self.events)
            out = self.block(st.body, body_env)
            nxt = self.join_env(cur, out) if out is not None else cur
            if self.env_key(nxt) == self.env_key(cur):
                cur = nxt
                break
            del self.events[n_ev:]          # re-run with the widened state; keep only the last pass's events
            cur = nxt
        else:
            body_env = dict(cur)
            self.assign(st.target, element_of(it), body_env, st)
            self.block(st.body, body_env)
        e2 = self.block(st.orelse, dict(cur)) if st.orelse else cur
        return e2

    s_AsyncFor = s_For

    def env_key(self, env):
        return tuple(sorted((k, v.key()) for k, v in env.items()))

    def s_While(self, st, env):
        cur = dict(env)
        for _ in range(4):
            self.ev(st.test, cur)
            n_ev = len(self.events)
            out = self.block(st.body, dict(cur))
            nxt = self.join_env(cur, out) if out is not None else cur
            if self.env_key(nxt) == self.env_key(cur):
                break
            del self.events[n_ev:]
            cur = nxt
        return cur

    def s_With(self, st, env):
        env = dict(env)
        for it in st.items:
            v = self.ev(it.context_expr, env)
            if it.optional_vars is not None:
                self.assign(it.optional_vars, v, env, st)
        return self.block(st.body, env)

    s_AsyncWith = s_With

    def s_Try(self, st, env):
        e_body = self.block(st.body, dict(env))
        start_h = self.join_env(dict(env), e_body)
        outs = []
        e_else = self.block(st.orelse, dict(e_body)) if e_body is not None else None
        outs.append(e_else if st.orelse else e_body)
        for h in st.handlers:
            he = dict(start_h)
            if h.name:
                he[h.name] = UNK_FRESH
            outs.append(self.block(h.body, he))
        res = None
        for o in outs:
            res = self.join_env(res, o)
        if st.finalbody and res is not None:
            res = self.block(st.finalbody, res)
        return res

    # -- expressions -------------------------------------------------------------
    def ev(self, e, env):
        if e is None:
            return SCAL
        m = getattr(self, 'e_' + type(e).__name__, None)
        if m is None:
            for c in ast.iter_child_nodes(e):
                if isinstance(c, ast.expr):
                    self.ev(c, env)
            return UNK_FRESH
        return m(e, env)

    def e_Constant(self, e, env):
        return SCAL

    e_JoinedStr = e_Constant

    def e_Name(self, e, env):
        if e.id in env:
            return env[e.id]
        if e.id in self.prog.module_globals.get(self.mname, ()):
            q = '%s.%s' % (self.mname, e.id)
            if q in self.prog.classes:
                return AV([CALLABLE], ['G:' + e.id], ['G:' + e.id], ['G:' + e.id])
            if q in self.prog.funcs or q in self.prog.namedtuples:
                return AV([CALLABLE])
            return AV(ANYKIND, ['G:' + e.id], ['G:' + e.id], ['G:' + e.id])
        return AV([SCALAR, CALLABLE])

    def e_Starred(self, e, env):
        return self.ev(e.value, env)

    def e_Tuple(self, e, env):
        items = [self.ev(x, env) for x in e.elts]
        inner = set([F])
        for x in items:
            inner |= x.reach()
        return AV([CONT], FS, FS, inner, items=items)

    def e_List(self, e, env):
        items = [self.ev(x, env) for x in e.elts]
        inner = set([F])
        elem = None
        for x in items:
            inner |= x.reach()
            elem = join(elem, x)
        fields = {i: x for i, x in enumerate(items)} if items and not any(isinstance(x, ast.Starred) for x in e.elts) else None
        return AV([CONT], FS, FS, inner, elem=elem, fields=fields)

    e_Set = e_List

    def e_Dict(self, e, env):
        inner = set([F])
        fields = {}
        elem = None
        for k, v in zip(e.keys, e.values):
            av = self.ev(v, env)
            inner |= av.reach()
            elem = join(elem, av)
            if k is not None:
                self.ev(k, env)
                ck = self.const_key(k)
                if ck is not None:
                    fields[ck] = av
        return AV([CONT], FS, FS, inner, elem=elem, fields=fields or None)

    def comp(self, e, elt_nodes, env):
        env = dict(env)
        for g in e.generators:
            it = self.ev(g.iter, env)
            self.assign(g.target, element_of(it), env, e)
            for c in g.ifs:
                self.ev(c, env)
        vals = [self.ev(x, env) for x in elt_nodes]
        inner = set([F])
        elem = None
        for v in vals:
            inner |= v.reach()
            elem = join(elem, v)
        return AV([CONT], FS, FS, inner, elem=elem)

    def e_ListComp(self, e, env):
        return self.comp(e, [e.elt], env)

    e_SetComp = e_ListComp
    e_GeneratorExp = e_ListComp

    def e_DictComp(self, e, env):
        return self.comp(e, [e.value], env)

    def e_Lambda(self, e, env):
        return AV([CALLABLE], FS, FS, self.captured(e, env))

    def e_BinOp(self, e, env):
        l, r = self.ev(e.left, env), self.ev(e.right, env)
        if isinstance(e.op, ast.Add) and (CONT in l.kind or CONT in r.kind) and ARRAY not in (l.kind | r.kind):
            return AV([CONT], FS, FS, l.inner | r.inner | FS, elem=join(l.elem, r.elem) if (l.elem or r.elem) else None)
        if isinstance(e.op, ast.Mult) and (CONT in l.kind or CONT in r.kind) and ARRAY not in (l.kind | r.kind):
            c = l if CONT in l.kind else r
            return AV(c.kind, FS, FS, c.inner | FS, elem=c.elem)
        if l.kind == {ARRAY} or r.kind == {ARRAY}:
            return AV([ARRAY])
        k = set()
        if ARRAY in l.kind or ARRAY in r.kind:
            k.add(ARRAY)
        k.add(SCALAR)
        return AV(k)

    def e_UnaryOp(self, e, env):
        v = self.ev(e.operand, env)
        if v.kind == {ARRAY}:
            return AV([ARRAY])
        return AV([ARRAY, SCALAR] if ARRAY in v.kind else [SCALAR])

    def e_Compare(self, e, env):
        vs = [self.ev(e.left, env)] + [self.ev(c, env) for c in e.comparators]
        if any(isinstance(o, (ast.Is, ast.IsNot, ast.In, ast.NotIn)) for o in e.ops):
            return SCAL
        if any(v.kind == {ARRAY} for v in vs):
            return AV([ARRAY])
        return AV([ARRAY, SCALAR] if any(ARRAY in v.kind for v in vs) else [SCALAR])

    def e_BoolOp(self, e, env):
        out = None
        for v in e.values:
            out = join(out, self.ev(v, env))
        return out

    def e_IfExp(self, e, env):
        self.ev(e.test, env)
        return join(self.ev(e.body, env), self.ev(e.orelse, env))

    def e_NamedExpr(self, e, env):
        v = self.ev(e.value, env)
        env[e.target.id] = v
        return v

    def e_Subscript(self, e, env):
        b = self.ev(e.value, env)
        idx = e.slice
        iv = self.ev(idx, env) if not isinstance(idx, ast.Slice) else SCAL
        if isinstance(idx, ast.Slice):
            for x in (idx.lower, idx.upper, idx.step):
                if x is not None:
                    self.ev(x, env)
        ck = self.const_key(idx)
        res = None
        if CONT in b.kind or not (b.kind & {ARRAY}):
            if b.fields and ck is not None and ck in b.fields:
                c = b.fields[ck]
            elif isinstance(idx, ast.Slice) and CONT in b.kind:
                c = AV([CONT], FS, FS, b.inner, elem=b.elem)           # slice of a list: new list, same elements
            else:
                c = element_of(AV(b.kind - {ARRAY}, b.own, b.buf, b.inner, b.elem, b.items, b.fields))
            res = join(res, c)
        if ARRAY in b.kind:
            adv = self.is_advanced(idx, iv, env)
            parts = idx.elts if isinstance(idx, ast.Tuple) else [idx]
            has_slice = any(isinstance(p_, ast.Slice) for p_ in parts)
            rk = [ARRAY] if (has_slice and b.kind == {ARRAY}) else [ARRAY, SCALAR]
            if adv is True:
                a = AV(rk)
            else:
                a = AV(rk, FS, b.buf, FS)       # view (or possibly a view)
            res = join(res, a)
        return res

    def is_advanced(self, idx, iv, env):
        """True if the index certainly copies (boolean/integer array or list index)."""
        parts = idx.elts if isinstance(idx, ast.Tuple) else [idx]
        adv = False
        for p in parts:
            if isinstance(p, (ast.Slice, ast.Constant)):
                continue
            if isinstance(p, (ast.List, ast.ListComp, ast.Compare)):
                adv = True
                continue
            if isinstance(p, ast.UnaryOp) and isinstance(p.op, ast.Invert):
                adv = True
                continue
            v = self.ev(p, env)
            if v.kind <= {ARRAY} or (ARRAY in v.kind and SCALAR not in v.kind and CONT not in v.kind):
                adv = True
            elif v.kind <= {CONT}:
                adv = True
        return adv

    def e_Slice(self, e, env):
        return SCAL

    def e_Attribute(self, e, env):
        d = dotted(e)
        if d is not None:
            root = d.split('.')[0]
            if root in self.mod.imports and root not in env:
                real = self.mod.imports[root] + d[len(root):]
                if real.startswith('FlowCal.'):
                    parts = real.split('.')
                    q = '.'.join(parts[1:])
                    if q in self.prog.funcs or q in self.prog.classes or q in self.prog.namedtuples:
                        return AV([CALLABLE])
                    if len(parts) == 3 and parts[2] in self.prog.module_globals.get(parts[1], ()):
                        return AV(ANYKIND, ['G:' + parts[2]], ['G:' + parts[2]], ['G:' + parts[2]])
                return AV([SCALAR, CALLABLE])          # third-party module attribute: fresh by assumption
        b = self.ev(e.value, env)
        a = e.attr
        if b.fields and ('.', a) in b.fields:
            return b.fields[('.', a)]
        if a in self.prog.props:
            # property of a repository class: apply its summary with self = b
            out = None
            for q in self.prog.props[a]:
                out = join(out, self.apply_summary(q, [b], {}, e, env, bound_self=True))
            if a in VIEW_ATTRS:
                out = join(out, AV([ARRAY], FS, b.buf, FS))
            return out
        if a in VIEW_ATTRS and ARRAY in b.kind:
            return AV([ARRAY], FS, b.buf, FS)
        if a in SCALAR_ATTRS:
            return SCAL
        if a in self.prog.methods or a in ('copy', 'astype', 'append'):
            return AV([CALLABLE], FS, FS, b.reach())
        return AV(ANYKIND, b.inner, b.inner, b.inner)

    # -- calls -------------------------------------------------------------------
    def e_Call(self, e, env):
        args = [self.ev(a, env) for a in e.args]
        kws = {}
        star_kw = []
        for k in e.keywords:
            v = self.ev(k.value, env)
            if k.arg is None:
                star_kw.append(v)
            else:
                kws[k.arg] = v
        d = dotted(e.func)
        real = None
        if d:
            root = d.split('.')[0]
            if root in self.mod.imports and root not in env:
                real = self.mod.imports[root] + d[len(root):]
        canon = None
        if real:
            canon = real.replace('numpy.', 'np.', 1) if real.startswith('numpy.') else real
        elif d:
            canon = d
        # out= keyword of array functions
        if 'out' in kws and not (kws['out'].kind <= {SCALAR}):
            self.effect(e, kws['out'], 'buf', 'out= argument of `%s`' % norm_stmt(e))
        # keywords by which library functions are allowed to destroy / reuse their input
        for kw_ in OVERWRITE_KWARGS:
            k_node = [k for k in e.keywords if k.arg == kw_]
            if k_node and not (isinstance(k_node[0].value, ast.Constant) and k_node[0].value.value in (False, None)) and args:
                self.effect(e, args[0], 'any', '`%s=` of `%s` lets the library overwrite its input' % (kw_, norm_stmt(e)))
        # np.array(x, copy=False) / x.astype(t, copy=False): may return the input itself
        copy_false = any(k.arg == 'copy' and isinstance(k.value, ast.Constant) and k.value.value is False for k in e.keywords)
        if copy_false and canon in ('np.array',) and args:
            a = args[0]
            return AV([ARRAY], FS, a.buf | (a.inner if CONT in a.kind else frozenset()), FS)
        if canon in INPLACE_NP_FUNCS and args:
            self.effect(e, args[INPLACE_NP_FUNCS[canon]], 'any', 'in-place library call `%s`' % norm_stmt(e))
            return SCAL
        # unbound ndarray methods used by FCSData
        if canon in ('np.ndarray.__getitem__',) and len(args) == 2:
            return self.e_Subscript(ast.Subscript(value=e.args[0], slice=e.args[1], ctx=ast.Load()), env)
        if canon in ('np.ndarray.__array_wrap__', 'np.ndarray.__reduce__', 'np.ndarray.__setstate__'):
            return UNK_FRESH
        # repository functions by dotted name
        if real and real.startswith('FlowCal.'):
            q = '.'.join(real.split('.')[1:])
            r = self.call_repo(q, args, kws, star_kw, e, env)
            if r is not None:
                return r
        if d and '.' not in d:
            if d in env:
                # call of a local value (parameter holding a function, lambda, partial): assumed pure
                self.prog.unresolved += 1
                return UNK_FRESH
            q = '%s.%s' % (self.mname, d)
            r = self.call_repo(q, args, kws, star_kw, e, env)
            if r is not None:
                return r
            if d in SHALLOW_FUNCS:
                return self.shallow(d, args)
            if d in SCALAR_FUNCS:
                return SCAL
            if d == 'next' and args:
                return element_of(args[0])
            if d == 'getattr' and len(args) >= 2:
                out = AV(ANYKIND, args[0].inner, args[0].inner, args[0].inner)
                if len(args) > 2:
                    out = join(out, args[2])
                return out
            if d == 'vars' and args:
                return AV([CONT], args[0].own, args[0].own, args[0].inner)
            return UNK_FRESH
        if canon in SHALLOW_FUNCS:
            return self.shallow(canon, args)
        if canon == 'copy.deepcopy':
            return AV(args[0].kind if args else ANYKIND)
        if canon in ARRAY_FUNCS:
            return AV([ARRAY])
        if canon in REDUCTIONS:
            return AV([ARRAY]) if ('axis' in kws or len(args) > 1) else AV([ARRAY, SCALAR])
        if canon in ALIAS_FUNCS and args:
            a = args[0]
            return AV([ARRAY], FS, a.buf | (a.inner if CONT in a.kind else frozenset()), FS)
        if canon == 'functools.partial':
            inner = set([F])
            for a in args + list(kws.values()):
                inner |= a.reach()
            return AV([CALLABLE], FS, FS, inner)
        if canon in ('np.frompyfunc', 'np.vectorize'):
            return AV([CALLABLE])
        if isinstance(e.func, ast.Attribute) and real is None:
            recv = e.func.value
            if isinstance(recv, ast.Call) and dotted(recv.func) == 'super':
                return UNK_FRESH           # super().method(...): NumPy's own implementation
            return self.method_call(e, recv, e.func.attr, args, kws, star_kw, env)
        if not isinstance(e.func, (ast.Attribute, ast.Name)):
            self.ev(e.func, env)           # call of a computed callee (e.g. table[key](...)): assumed pure
            self.prog.unresolved += 1
            return UNK_FRESH
        # third-party function: pure and fresh by assumption
        return AV([ARRAY, SCALAR, CONT])

    def shallow(self, name, args):
        if not args:
            return AV([CONT])
        a = args[0]
        if name in ('zip', 'six.moves.zip'):
            items = [element_of(x) for x in args]
            inner = set([F])
            for x in items:
                inner |= x.reach()
            return AV([CONT], FS, FS, inner, elem=AV([CONT], FS, FS, inner, items=items))
        if name == 'enumerate':
            el = element_of(a)
            return AV([CONT], FS, FS, el.reach() | FS, elem=AV([CONT], FS, FS, el.reach() | FS, items=[SCAL, el]))
        if name in ('six.iteritems',):
            el = element_of(a)
            return AV([CONT], FS, FS, el.reach() | FS, elem=AV([CONT], FS, FS, el.reach() | FS, items=[SCAL, el]))
        if name == 'itertools.chain':
            el = None
            for x in args:
                el = join(el, element_of(x))
            return AV([CONT], FS, FS, el.reach() | FS, elem=el)
        el = element_of(a)
        if ARRAY in a.kind and CONT not in a.kind and name in ('list', 'tuple', 'sorted', 'set'):
            el = AV([ARRAY, SCALAR], FS, a.buf, FS)
        fields = a.fields if name in ('list', 'dict', 'copy.copy', 'tuple', 'collections.OrderedDict') else None
        return AV([CONT] if name != 'copy.copy' else a.kind, FS, FS if (name != 'copy.copy' or ARRAY not in a.kind) else FS,
                  el.reach() | FS, elem=el, items=a.items if name in ('tuple', 'list') else None, fields=fields)

    def call_repo(self, q, args, kws, star_kw, node, env):
        prog = self.prog
        if q in prog.funcs:
            self.prog.resolved += 1
            return self.apply_summary(q, args, kws, node, env, star_kw=star_kw)
        if q in prog.namedtuples:
            f = prog.namedtuples[q]
            fields = {}
            inner = set([F])
            for i, a in enumerate(args):
                if i < len(f):
                    fields[('.', f[i])] = a
                    inner |= a.reach()
            for k, a in kws.items():
                fields[('.', k)] = a
                inner |= a.reach()
            items = [fields.get(('.', n), SCAL) for n in f]
            return AV([CONT], FS, FS, inner, items=items, fields=fields)
        if q in prog.classes:
            self.prog.resolved += 1
            init = q + '.__init__'
            new = q + '.__new__'
            inner = set([F])
            for ctor in (init, new):
                if ctor in prog.funcs:
                    r = self.apply_summary(ctor, [AV([CONT])] + args, kws, node, env, star_kw=star_kw, is_ctor=True)
                    s = prog.summaries[ctor]
                    for t in s.stores:
                        inner |= self.subst_tag(t, 'inner', ctor, [AV([CONT])] + args, kws)
            kind = [ARRAY] if q.endswith('FCSData') else [CONT]
            return AV(kind, FS, FS, inner)
        return None

    def subst_tag(self, t, comp, q, args, kws):
        """origins in the caller for summary tag t of callee q appearing in component comp"""
        if t == F or t.startswith('G:'):
            return frozenset([t])
        mod, f, cls = self.prog.funcs[q]
        a = f.args
        names = [x.arg for x in a.posonlyargs + a.args + a.kwonlyargs]
        p = t[2:]
        star = p.endswith('*')
        p = p.rstrip('*')
        actual = None
        if p in kws:
            actual = kws[p]
        elif p in names and names.index(p) < len(args):
            actual = args[names.index(p)]
        elif a.vararg and p == a.vararg.arg:
            actual = None
            extra = args[len(a.posonlyargs + a.args):]
            for x in extra:
                actual = join(actual, AV([CONT], FS, FS, x.reach()))
        elif a.kwarg and p == a.kwarg.arg:
            for k, x in kws.items():
                if k not in names:
                    actual = join(actual, AV([CONT], FS, FS, x.reach()))
        if actual is None:
            return FS        # default value of the callee: its own object
        if star:
            return actual.inner | (actual.elem.reach() if actual.elem else frozenset()) | \
                frozenset().union(*[x.reach() for x in (actual.items or ())]) | \
                frozenset().union(*[x.reach() for x in (actual.fields or {}).values()])
        if comp == 'own':
            return actual.own
        if comp == 'buf':
            return actual.buf
        return actual.reach()

    def apply_summary(self, q, args, kws, node, env, star_kw=(), bound_self=False, is_ctor=False):
        s = self.prog.summaries[q]
        mod, f, cls = self.prog.funcs[q]
        a = f.args
        names = [x.arg for x in a.posonlyargs + a.args + a.kwonlyargs]
        # effects
        for p, levels in s.mut.items():
            if is_ctor and p in ('self', 'cls'):
                continue
            actual = None
            if p in kws:
                actual = kws[p]
            elif p in names and names.index(p) < len(args):
                actual = args[names.index(p)]
            elif a.kwarg and p == a.kwarg.arg:
                for k, x in kws.items():
                    if k not in names:
                        actual = join(actual, AV([CONT], FS, FS, x.reach()))
            elif a.vararg and p == a.vararg.arg:
                for x in args[len(a.posonlyargs + a.args):]:
                    actual = join(actual, AV([CONT], FS, FS, x.reach()))
            if actual is None:
                for sk in star_kw:            # f(**mapping): the mapping's values may bind this parameter
                    actual = join(actual, AV(ANYKIND, sk.inner, sk.inner, sk.inner))
            if actual is None:
                continue
            for lvl, what in levels.items():
                chain = '%s -> %s' % (q, what)
                if lvl == 'inner':
                    tgt = AV(ANYKIND, self.star(actual), self.star(actual), self.star(actual))
                    self.effect(node, tgt, 'any', 'call of %s, which mutates what its argument `%s` refers to (%s)' % (q, p, what), [chain])
                else:
                    self.effect(node, actual, lvl if lvl in ('own', 'buf') else 'any',
                                'call of %s, which mutates its argument `%s` (%s)' % (q, p, what), [chain])
        r = s.ret
        if r is None:
            return UNK_FRESH
        return self.subst_av(r, q, args, kws)

    def star(self, actual):
        return actual.inner | (actual.elem.reach() if actual.elem else frozenset()) | \
            frozenset().union(*[x.reach() for x in (actual.items or ())]) | \
            frozenset().union(*[x.reach() for x in (actual.fields or {}).values()])

    def subst_av(self, r, q, args, kws):
        def sub(tags, comp):
            out = set()
            for t in tags:
                out |= self.subst_tag(t, comp, q, args, kws)
            return frozenset(out) or FS
        return AV(r.kind, sub(r.own, 'own'), sub(r.buf, 'buf'), sub(r.inner, 'inner'),
                  self.subst_av(r.elem, q, args, kws) if r.elem is not None else None,
                  [self.subst_av(x, q, args, kws) for x in r.items] if r.items is not None else None,
                  {k: self.subst_av(x, q, args, kws) for k, x in r.fields.items()} if r.fields else None)

    def method_call(self, e, recv_expr, name, args, kws, star_kw, env):
        # self.method / cls.method
        b = self.ev(recv_expr, env)
        prog = self.prog
        # repository method?
        cands = []
        if name in prog.methods and name not in GENERIC_METHOD_NAMES:
            cands = prog.methods[name]
        elif isinstance(recv_expr, ast.Name) and recv_expr.id in ('self', 'cls') and self.cls and \
                '%s.%s.%s' % (self.mname, self.cls, name) in prog.funcs:
            cands = ['%s.%s.%s' % (self.mname, self.cls, name)]
        if cands and not (b.kind <= {SCALAR}):
            out = None
            for q in cands:
                mod, f, cls = prog.funcs[q]
                is_static = any(dotted(d) in ('staticmethod',) for d in f.decorator_list)
                out = join(out, self.apply_summary(q, (args if is_static else [b] + args), kws, e, env, star_kw=star_kw))
            self.prog.resolved += 1
            return out
        # mutators
        if name in CONTAINER_MUTATORS and (CONT in b.kind or not b.kind & {ARRAY}):
            if not b.kind <= {SCALAR, CALLABLE}:
                self.effect(e, b, 'own', 'mutator call `%s`' % norm_stmt(e))
            if isinstance(recv_expr, ast.Name) and recv_expr.id in env and args:
                old = env[recv_expr.id]
                add = frozenset().union(*[a.reach() for a in args + list(kws.values())])
                el = old.elem
                if name in ('append', 'add', 'insert', 'appendleft'):
                    el = join(el, args[-1]) if el is not None else (args[-1] if not (old.inner - FS) else None)
                elif name in ('extend', 'update'):
                    el = join(el, element_of(args[0])) if el is not None else None
                env[recv_expr.id] = AV(old.kind, old.own, old.buf, old.inner | add, el, None, None if name != 'append' else None)
        if name in ARRAY_MUTATORS and ARRAY in b.kind:
            self.effect(e, b, 'buf', 'in-place array method `%s`' % norm_stmt(e))
        if name == 'byteswap' and (('inplace' in kws) or (args and True)):
            self.effect(e, b, 'buf', 'in-place byteswap `%s`' % norm_stmt(e))
        if name in ELEMENT_METHODS:
            out = element_of(b)
            for a in args[1:]:
                out = join(out, a)
            if name in ('items',):
                return AV([CONT], FS, FS, out.reach() | FS, elem=AV([CONT], FS, FS, out.reach() | FS, items=[SCAL, out]))
            if name in ('values',):
                return AV([CONT], FS, FS, out.reach() | FS, elem=out)
            return out
        if name == 'copy':
            if CONT in b.kind and ARRAY not in b.kind:
                return AV(b.kind, FS, FS, b.inner | FS, elem=b.elem, items=b.items, fields=b.fields)
            if ARRAY in b.kind and CONT not in b.kind:
                return AV([ARRAY])
            return AV(b.kind, FS, FS, b.inner | FS, elem=b.elem, fields=b.fields)
        if name == 'astype':
            cp = kws.get('copy')
            if 'copy' in [k.arg for k in e.keywords]:
                kv = [k.value for k in e.keywords if k.arg == 'copy'][0]
                if isinstance(kv, ast.Constant) and kv.value is False:
                    return AV([ARRAY], FS, b.buf, FS)
            return AV([ARRAY])
        if name in VIEW_METHODS and ARRAY in b.kind:
            return AV([ARRAY], FS, b.buf, FS)
        if name in FRESH_METHODS:
            return AV([ARRAY, SCALAR, CONT])
        self.prog.unresolved += 1
        return AV([ARRAY, SCALAR, CONT])
