"""Expression normal forms (value numbering with algebraic normalisation).

`norm(expr, env)` turns a Python expression AST into a canonical nested tuple so that expressions
equal up to commutativity/associativity of + * and/or, a/b == a*b**-1, a-b == a+(-1*b),
numeric literal spelling (1 == 1.0), float()/int-free casts, np./math./scipy. prefixes of
elementwise functions, comparison orientation (a < b == b > a) and renaming (through `env`) get the
same normal form.  No solving, no path enumeration: pure term rewriting.
"""
import ast

CAST_TRANSPARENT = {'float', 'np.float64', 'numpy.float64', 'np.asarray', 'numpy.asarray',
                    'np.array', 'numpy.array'}
FUNC_ALIASES = {
    'numpy.': '', 'np.': '', 'math.': '', 'scipy.': 'scipy.',
}
POW_FUNCS = {'power', 'pow'}
import builtins as _b
_BUILTINS = set(dir(_b))
MODULE_ROOTS = {'np', 'numpy', 'math', 'scipy', 'plt', 'matplotlib', 'pd', 'pandas', 'FlowCal', 'six',
                'datetime', 'collections', 'copy', 'os', 'warnings', 'packaging', 'sklearn', 'skimage',
                'functools', 'openpyxl', 're', 'time'}


def dotted(node):
    """a.b.c -> 'a.b.c' for Name/Attribute chains, else None."""
    parts = []
    while isinstance(node, ast.Attribute):
        parts.append(node.attr)
        node = node.value
    if isinstance(node, ast.Name):
        parts.append(node.id)
        return '.'.join(reversed(parts))
    return None


def canon_func(name):
    for p, r in FUNC_ALIASES.items():
        if name.startswith(p):
            return r + name[len(p):]
    return name


def num(v):
    if isinstance(v, bool):
        return ('const', v)
    if isinstance(v, (int, float)):
        f = float(v)
        return ('num', int(f) if f == int(f) and abs(f) < 1e15 else f)
    return ('const', v)


def _is_num(t):
    return isinstance(t, tuple) and t and t[0] == 'num'


def _key(t):
    return repr(t)


def mk_mul(factors):
    flat, c = [], 1
    for f in factors:
        if isinstance(f, tuple) and f and f[0] == 'mul':
            sub = list(f[1])
        else:
            sub = [f]
        for s in sub:
            if _is_num(s):
                c = c * s[1]
            else:
                flat.append(s)
    # merge powers of the same base: x * x**-1 etc. are left alone (no cancellation), but
    # pow(pow(a,b),-1) is normalised by mk_pow
    flat.sort(key=_key)
    if c == 0:
        return ('num', 0)
    if not flat:
        return num(c)
    if c != 1:
        flat = [num(c)] + flat
    if len(flat) == 1:
        return flat[0]
    return ('mul', tuple(flat))


def mk_add(terms):
    flat, c = [], 0
    for t in terms:
        sub = list(t[1]) if (isinstance(t, tuple) and t and t[0] == 'add') else [t]
        for s in sub:
            if _is_num(s):
                c = c + s[1]
            else:
                flat.append(s)
    flat.sort(key=_key)
    if c != 0:
        flat = [num(c)] + flat
    if not flat:
        return ('num', 0)
    if len(flat) == 1:
        return flat[0]
    return ('add', tuple(flat))


def mk_pow(base, exp):
    if _is_num(exp) and exp[1] == 1:
        return base
    if _is_num(base) and _is_num(exp):
        try:
            return num(base[1] ** exp[1])
        except Exception:
            pass
    if isinstance(base, tuple) and base and base[0] == 'pow':
        return ('pow', base[1], mk_mul([base[2], exp]))
    if isinstance(base, tuple) and base and base[0] == 'mul' and _is_num(exp) and exp[1] == -1:
        return mk_mul([mk_pow(f, exp) for f in base[1]])
    return ('pow', base, exp)


CMP_FLIP = {'Lt': 'Gt', 'LtE': 'GtE', 'Gt': 'Lt', 'GtE': 'LtE', 'Eq': 'Eq', 'NotEq': 'NotEq'}


# first positional parameters of array methods that the code base calls on local objects (receiver type unknown)
METHOD_SIGS = {'ravel': ['order'], 'flatten': ['order'], 'astype': ['dtype'], 'argsort': ['axis'], 'cumsum': ['axis'],
               'mean': ['axis'], 'sum': ['axis'], 'max': ['axis'], 'min': ['axis'], 'std': ['axis'], 'any': ['axis'], 'all': ['axis']}
REPO_SIGS = {}       # callable name (last component) -> list of parameter names (without self); filled by core.Repo
_EXT_SIG_CACHE = {}
EXT_ROOTS = {'np': 'numpy', 'numpy': 'numpy', 'scipy': 'scipy', 'pd': 'pandas', 'plt': 'matplotlib.pyplot',
             'datetime': 'datetime', 'os': 'os', 'functools': 'functools'}


def _ext_params(d):
    """Parameter names of a third-party callable given by its dotted source name, or None."""
    if d in _EXT_SIG_CACHE:
        return _EXT_SIG_CACHE[d]
    out = None
    root = d.split('.')[0]
    if root in EXT_ROOTS:
        try:
            from . import extapi
            import inspect
            obj, err = extapi.resolve(EXT_ROOTS[root] + d[len(root):])
            if err is None and callable(obj):
                sig = inspect.signature(obj)
                ps = list(sig.parameters.values())
                if not any(p.kind in (p.VAR_POSITIONAL, p.POSITIONAL_ONLY) for p in ps):
                    out = [p.name for p in ps if p.kind == p.POSITIONAL_OR_KEYWORD]
        except Exception:
            out = None
    _EXT_SIG_CACHE[d] = out
    return out


def mk_cmp(op, l, r):
    # len(x) == 0  ->  not x   (emptiness of a sized container)
    if op in ('Eq', 'NotEq'):
        for a, b in ((l, r), (r, l)):
            if b == ('num', 0) and isinstance(a, tuple) and len(a) == 4 and a[0] == 'call' and a[1] == 'len' and len(a[2]) == 1 and not a[3]:
                return ('not', a[2][0]) if op == 'Eq' else ('truth', a[2][0])
    if op in CMP_FLIP and (op in ('Gt', 'GtE') or (op in ('Eq', 'NotEq') and _key(l) > _key(r))):
        op, l, r = CMP_FLIP[op], r, l
    if op == 'Lt':
        # a length is an integer:  len(x) < k  is  len(x) <= k-1 ;  k < len(x)  is  k+1 <= len(x)
        if _is_len(l) and _is_intc(r):
            op, r = 'LtE', ('num', r[1] - 1)
        elif _is_len(r) and _is_intc(l):
            op, l = 'LtE', ('num', l[1] + 1)
    return ('cmp', op, l, r)


def _is_len(a):
    return isinstance(a, tuple) and len(a) == 4 and a[0] == 'call' and a[1] == 'len' and len(a[2]) == 1 and not a[3]


def _is_intc(a):
    return isinstance(a, tuple) and len(a) == 2 and a[0] == 'num' and type(a[1]) is int


_NEG_CMP = {'Eq': 'NotEq', 'NotEq': 'Eq', 'Is': 'IsNot', 'IsNot': 'Is', 'In': 'NotIn', 'NotIn': 'In'}


def negate(v):
    """Logical negation in normal form: double negation removed; equality / identity / membership tests
    turned into their complement (exact for every value); order comparisons stay under `not` (their
    complement differs on NaN)."""
    if isinstance(v, tuple) and v:
        if v[0] == 'not':
            return v[1]
        if v[0] == 'cmp' and v[1] in _NEG_CMP:
            return mk_cmp(_NEG_CMP[v[1]], v[2], v[3])
        if v[0] == 'cmp' and v[1] == 'LtE' and ((_is_len(v[2]) and _is_intc(v[3])) or (_is_len(v[3]) and _is_intc(v[2]))):
            return mk_cmp('Lt', v[3], v[2])      # integers: the complement is exact
        if v[0] == 'truth':
            return ('not', v[1])
    return ('not', v)


def _negativity(t):
    """number of negative atoms (not / != / is not / not in) of a test"""
    if isinstance(t, tuple) and t:
        if t[0] == 'not':
            return 1 + _negativity(t[1])
        if t[0] == 'cmp':
            return 1 if t[1] in ('NotEq', 'IsNot', 'NotIn') else 0
        if t[0] in ('and', 'or'):
            return sum(_negativity(x) for x in t[1:])
    return 0


def negate_deep(t):
    if isinstance(t, tuple) and t and t[0] in ('and', 'or'):
        parts = tuple(sorted((negate_deep(x) for x in t[1:]), key=_key))
        return ('or' if t[0] == 'and' else 'and',) + parts
    return negate(t)


def mk_ifexp(test, body, orelse):
    """`a if c else b` and `b if not c else a` are one expression: the test is kept in its more positive spelling."""
    nt = negate_deep(test)
    a, b = _negativity(test), _negativity(nt)
    if b < a or (b == a and _key(nt) < _key(test)):
        return ('ifexp', nt, orelse, body)
    return ('ifexp', test, body, orelse)


class Normalizer(object):
    def __init__(self, env=None, resolver=None, transparent_calls=(), keep_casts=False, ordered_add=False):
        """env: name -> normal form (or AST) substituted for Names.
        resolver: callable(Name node) -> AST expr or None, to inline single reaching definitions."""
        self.env = env or {}
        self.resolver = resolver
        self.transparent = set(CAST_TRANSPARENT) | set(transparent_calls)
        if keep_casts:
            self.transparent = set(transparent_calls)
        self._depth = 0
        self.ordered_add = ordered_add

    def n(self, e):
        m = getattr(self, 'n_' + type(e).__name__, None)
        if m is None:
            return ('ast', ast.dump(e))
        return m(e)

    # leaves
    def n_Constant(self, e):
        return num(e.value)

    def n_Name(self, e):
        if e.id.endswith('#phi'):
            return ('var', e.id)
        if e.id in self.env:
            v = self.env[e.id]
            return self.n(v) if isinstance(v, ast.AST) else v
        if self.resolver is not None and self._depth < 12:
            r = self.resolver(e)
            if r is not None:
                self._depth += 1
                try:
                    return self.n(r)
                finally:
                    self._depth -= 1
        if e.id in ('True', 'False', 'None'):
            return ('const', e.id)
        return ('var', e.id)

    def n_Attribute(self, e):
        d = dotted(e)
        if d is not None:
            root = d.split('.')[0]
            if root in MODULE_ROOTS and root not in self.env:
                c = canon_func(d)
                if c in ('inf', 'Inf', 'infty', 'Infinity', 'PINF'):
                    return ('var', 'inf')
                return ('var', c)
        return ('attr', self.n(e.value), e.attr)

    def n_Subscript(self, e):
        b, i = self.n(e.value), self.n(e.slice)
        if isinstance(b, tuple) and b and b[0] in ('list', 'tuple') and _is_num(i) and isinstance(i[1], int) \
                and -len(b) + 1 <= i[1] < len(b) - 1:
            return b[1:][i[1]]
        return ('idx', b, i)

    def n_Slice(self, e):
        return ('slice',) + tuple(self.n(x) if x is not None else ('const', None)
                                  for x in (e.lower, e.upper, e.step))

    def n_Tuple(self, e):
        return ('tuple',) + tuple(self.n(x) for x in e.elts)

    def n_List(self, e):
        return ('list',) + tuple(self.n(x) for x in e.elts)

    def n_Starred(self, e):
        return ('star', self.n(e.value))

    # operators
    def n_BinOp(self, e):
        l, r = self.n(e.left), self.n(e.right)
        op = type(e.op).__name__
        if op == 'Add':
            if self.ordered_add:
                # concatenation of sequences/strings: associative, not commutative
                parts = []
                for x in (l, r):
                    parts += list(x[1]) if (isinstance(x, tuple) and x and x[0] == 'cat') else [x]
                return ('cat', tuple(parts))
            return mk_add([l, r])
        if op == 'Sub':
            return mk_add([l, mk_mul([num(-1), r])])
        if op == 'Mult':
            return mk_mul([l, r])
        if op == 'Div':
            return mk_mul([l, mk_pow(r, num(-1))])
        if op == 'Pow':
            return mk_pow(l, r)
        if op in ('BitAnd', 'BitOr', 'BitXor'):
            return (op, tuple(sorted([l, r], key=_key)))
        if op == 'Mod' and isinstance(l, tuple) and l and l[0] == 'const' and isinstance(l[1], str) and '%' in l[1]:
            # 'a%db' % x  ->  'a{}b'.format(x)
            import re as _re
            tpl = _re.sub(r'%[sd]', '{}', l[1])
            if '%' not in tpl:
                args = tuple(r[1:]) if (isinstance(r, tuple) and r and r[0] == 'tuple') else (r,)
                return ('call', ('attr', ('const', tpl), 'format'), args, ())
        return (op, l, r)

    def n_UnaryOp(self, e):
        v = self.n(e.operand)
        op = type(e.op).__name__
        if op == 'USub':
            return mk_mul([num(-1), v])
        if op == 'UAdd':
            return v
        if op == 'Not':
            return negate(v)
        return (op, v)

    def n_BoolOp(self, e):
        vals = sorted({_key(self.n(v)): self.n(v) for v in e.values}.items())
        return (type(e.op).__name__.lower(),) + tuple(v for _, v in vals)

    def n_Compare(self, e):
        parts = []
        left = self.n(e.left)
        for op, c in zip(e.ops, e.comparators):
            if isinstance(op, (ast.In, ast.NotIn)) and isinstance(c, (ast.Tuple, ast.List, ast.Set)) and 1 <= len(c.elts) <= 8 \
                    and all(isinstance(x, ast.Constant) and isinstance(x.value, (str, int)) and not isinstance(x.value, bool) for x in c.elts):
                # x in ('a', 'b')  is  x == 'a' or x == 'b'  (constants: identity adds nothing to equality)
                eqs = sorted({_key(mk_cmp('Eq', left, self.n(x))): mk_cmp('Eq', left, self.n(x)) for x in c.elts}.values(), key=_key)
                t_ = eqs[0] if len(eqs) == 1 else ('or',) + tuple(eqs)
                parts.append(t_ if isinstance(op, ast.In) else negate_deep(t_))
                left = self.n(c)
                continue
            r = self.n(c)
            parts.append(mk_cmp(type(op).__name__, left, r))
            left = r
        if len(parts) == 1:
            return parts[0]
        return ('and',) + tuple(sorted(parts, key=_key))

    def n_IfExp(self, e):
        return mk_ifexp(self.n(e.test), self.n(e.body), self.n(e.orelse))

    def n_Call(self, e):
        d = dotted(e.func)
        # a local alias of a dotted callable (f = a.b.c ; f(x)) stands for that callable
        if isinstance(e.func, ast.Name) and self.resolver is not None and e.func.id not in self.env:
            r = self.resolver(e.func)
            inner = getattr(r, 'expr', r)
            if r is not None and isinstance(inner, ast.Attribute) and dotted(inner):
                d = dotted(inner)
                e = ast.Call(func=inner, args=e.args, keywords=e.keywords)
            elif r is not None and isinstance(inner, ast.Lambda) and self._depth < 10:
                # beta-reduction: a call of a local lambda (helper defined in the function) is its body at the arguments
                la = inner.args
                if not (la.vararg or la.kwarg or la.kwonlyargs or la.posonlyargs or la.defaults) \
                        and not any(isinstance(a, ast.Starred) for a in e.args) and not any(k.arg is None for k in e.keywords):
                    ps = [a.arg for a in la.args]
                    amap = dict(zip(ps, e.args))
                    ok_ = len(e.args) <= len(ps)
                    for k in e.keywords:
                        if k.arg in ps and k.arg not in amap:
                            amap[k.arg] = k.value
                        else:
                            ok_ = False
                    if ok_ and set(amap) == set(ps):
                        envb = dict(self.env)
                        for p_, a_ in amap.items():
                            envb[p_] = self.n(a_)
                        sub = Normalizer(envb, None, keep_casts=False, ordered_add=self.ordered_add)
                        sub.transparent = self.transparent
                        sub._depth = self._depth + 1
                        if isinstance(r, _Rebased):
                            sub.resolver = make_resolver(r.cfg, r.rd, r.at, tuple(r.stop) + tuple(ps), r.only_lambdas)
                        return sub.n(inner.body)
        name = canon_func(d) if d else None
        # one spelling for positional / keyword arguments of callables whose signature is known
        params = None
        if d and e.args and not any(isinstance(a, ast.Starred) for a in e.args):
            last = d.split('.')[-1]
            last2 = '.'.join(d.split('.')[-2:])
            if d.split('.')[0] == 'FlowCal' and len(d.split('.')) == 3 and last2 in REPO_SIGS:
                params = REPO_SIGS[last2]
            elif last in REPO_SIGS and (('.' not in d) or d.split('.')[0] in ('FlowCal', 'self', 'cls') or d.split('.')[0] not in MODULE_ROOTS):
                params = REPO_SIGS[last]
            elif d.split('.')[0] in EXT_ROOTS and d.split('.')[0] not in self.env:
                params = _ext_params(d)
        if params is None and isinstance(e.func, ast.Attribute) and e.args and not any(isinstance(a, ast.Starred) for a in e.args) \
                and e.func.attr in METHOD_SIGS and not (d and d.split('.')[0] in MODULE_ROOTS):
            params = METHOD_SIGS[e.func.attr]
        if params is None and d is None and isinstance(e.func, ast.Attribute) and e.args and not any(isinstance(a, ast.Starred) for a in e.args) \
                and e.func.attr in REPO_SIGS and not e.func.attr.startswith('_'):
            # a method of the package (its name is defined once in it) called on a computed receiver: samples[k].hist_bins(...)
            params = REPO_SIGS[e.func.attr]
        pos_args = list(e.args)
        extra_kw = []
        if params is not None and len(pos_args) <= len(params) and not (set(params[:len(pos_args)]) & {k.arg for k in e.keywords}):
            extra_kw = [(params[i], self.n(a)) for i, a in enumerate(pos_args)]
            pos_args = []
        if d in ('tuple', 'list') and len(e.args) == 1 and not e.keywords and isinstance(e.args[0], (ast.List, ast.Tuple)) \
                and not any(isinstance(x, ast.Starred) for x in e.args[0].elts):
            # tuple([a, b]) is (a, b); list((a, b)) is [a, b]
            return (d,) + tuple(self.n(x) for x in e.args[0].elts)
        if len(e.args) == 1 and not e.keywords and isinstance(e.args[0], ast.IfExp) and d:
            ie = e.args[0]
            return mk_ifexp(self.n(ie.test), self.n(ast.Call(func=e.func, args=[ie.body], keywords=[])),
                            self.n(ast.Call(func=e.func, args=[ie.orelse], keywords=[])))
        args = [self.n(a) for a in pos_args]
        kws = tuple(sorted([(k.arg or '**', self.n(k.value)) for k in e.keywords] + extra_kw))
        if d in self.transparent and len(e.args) == 1 and not [k for k in e.keywords if k.arg != 'dtype'] and all(
                (dotted(k.value) in ('float', 'np.float64', 'np.float_', 'np.double', 'numpy.float64'))
                or (isinstance(k.value, ast.Constant) and k.value.value in ('float', 'float64', 'f8')) for k in e.keywords):
            # a cast to double (or no dtype at all) does not change the value; any other dtype does (int truncates)
            return self.n(e.args[0])
        if extra_kw and name in (POW_FUNCS | {'abs', 'absolute', 'fabs', 'sqrt', 'multiply', 'add', 'divide', 'true_divide', 'subtract',
                                               'less', 'greater', 'less_equal', 'greater_equal', 'logical_and', 'logical_or'}):
            args = [v for _, v in extra_kw]
            kws = tuple(sorted((k.arg or '**', self.n(k.value)) for k in e.keywords))
        if name in POW_FUNCS and len(args) == 2 and not kws:
            return mk_pow(args[0], args[1])
        if name in ('abs', 'absolute', 'fabs') and len(args) == 1:
            return ('call', 'abs', tuple(args), kws)
        if name == 'sqrt' and len(args) == 1 and not kws:
            return mk_pow(args[0], num(0.5))
        if name in ('multiply',) and len(args) == 2 and not kws:
            return mk_mul(args)
        if name in ('add',) and len(args) == 2 and not kws:
            return mk_add(args)
        if name in ('divide', 'true_divide') and len(args) == 2 and not kws:
            return mk_mul([args[0], mk_pow(args[1], num(-1))])
        if name in ('subtract',) and len(args) == 2 and not kws:
            return mk_add([args[0], mk_mul([num(-1), args[1]])])
        if name in ('less', 'greater', 'less_equal', 'greater_equal') and len(args) == 2 and not kws:
            return mk_cmp({'less': 'Lt', 'greater': 'Gt', 'less_equal': 'LtE',
                           'greater_equal': 'GtE'}[name], args[0], args[1])
        if name in ('logical_and', 'logical_or') and len(args) == 2 and not kws:
            return (name[8:],) + tuple(sorted(args, key=_key))
        if isinstance(e.func, ast.Name) and e.func.id not in _BUILTINS and e.func.id not in self.transparent:
            # call of a local / module-level name: keep the callee as a term (it may be renamed or be a metavariable)
            return ('call', self.n_Name_callee(e.func), tuple(args), kws)
        if name is None or ('.' in d and d.split('.')[0] not in MODULE_ROOTS):
            # method call on a local object: keep the receiver as an expression (so that it can be
            # renamed / inlined)
            return ('call', self.n(e.func), tuple(args), kws)
        return ('call', name, tuple(args), kws)

    def n_Name_callee(self, e):
        if e.id in self.env:
            v = self.env[e.id]
            return self.n(v) if isinstance(v, ast.AST) else v
        return ('var', e.id)

    def n_Lambda(self, e):
        params = [a.arg for a in e.args.args]
        sub = Normalizer(dict(self.env, **{p: ('param', i) for i, p in enumerate(params)}),
                         self.resolver, keep_casts=False)
        sub.transparent = self.transparent
        return ('lambda', len(params), sub.n(e.body))

    def n_ListComp(self, e):
        return self._comp('listcomp', e, e.elt)

    def n_GeneratorExp(self, e):
        return self._comp('listcomp', e, e.elt)

    def n_SetComp(self, e):
        return self._comp('setcomp', e, e.elt)

    def _comp(self, tag, e, elt):
        env = dict(self.env)
        gens = []
        k = 0
        for g in e.generators:
            sub = Normalizer(env, self.resolver)
            sub.transparent = self.transparent
            it = sub.n(g.iter)
            for nm in _target_names(g.target):
                env[nm] = ('bound', k)
                k += 1
            sub = Normalizer(env, self.resolver)
            sub.transparent = self.transparent
            gens.append((sub.n(g.target), it, tuple(sub.n(c) for c in g.ifs)))
        sub = Normalizer(env, self.resolver)
        sub.transparent = self.transparent
        return (tag, sub.n(elt), tuple(gens))

    def n_Dict(self, e):
        return ('dict',) + tuple(sorted(((self.n(k) if k is not None else ('star',), self.n(v))
                                         for k, v in zip(e.keys, e.values)), key=_key))

    def n_JoinedStr(self, e):
        return ('fstr', ast.dump(e))


def _root_name(e):
    while isinstance(e, (ast.Attribute, ast.Subscript)):
        e = e.value
    return e if isinstance(e, ast.Name) else ast.Name(id='?')


def _target_names(t):
    if isinstance(t, ast.Name):
        return [t.id]
    if isinstance(t, (ast.Tuple, ast.List)):
        out = []
        for x in t.elts:
            out += _target_names(x)
        return out
    return []


def renorm(t):
    """Re-normalise a normal form after a substitution (flatten / fold sums and products, orient comparisons)."""
    if isinstance(t, MultiNF):
        t = tuple(t)
    if not isinstance(t, tuple) or not t:
        return t
    h = t[0]
    if h in ('var', 'num', 'const', 'param', 'bound', 'ast', 'fstr', 'stmt'):
        return t
    if h == 'add' and len(t) == 2 and isinstance(t[1], tuple):
        return mk_add([renorm(x) for x in t[1]])
    if h == 'mul' and len(t) == 2 and isinstance(t[1], tuple):
        return mk_mul([renorm(x) for x in t[1]])
    if h == 'pow' and len(t) == 3:
        return mk_pow(renorm(t[1]), renorm(t[2]))
    if h == 'cmp' and len(t) == 4:
        return mk_cmp(t[1], renorm(t[2]), renorm(t[3]))
    if h == 'not' and len(t) == 2:
        return negate(renorm(t[1]))
    if h in ('and', 'or'):
        return (h,) + tuple(sorted({_key(renorm(x)): renorm(x) for x in t[1:]}.values(), key=_key))
    if h == 'ifexp' and len(t) == 4:
        return mk_ifexp(renorm(t[1]), renorm(t[2]), renorm(t[3]))
    return tuple(renorm(x) if isinstance(x, tuple) else x for x in t)


def expand_temps(t, defs, skip=(), depth=0):
    """Replace ('var', name) by defs[name] (normal forms of single-definition temporaries), recursively, and
    re-normalise: the reading of a statement with the code's own temporaries written out."""
    def sub(x, d):
        if isinstance(x, tuple) and x:
            if len(x) == 2 and x[0] == 'var' and isinstance(x[1], str) and x[1] in defs and x[1] not in skip and d < 6:
                return sub(defs[x[1]], d + 1)
            return tuple(sub(y, d) if isinstance(y, tuple) else y for y in x)
        return x
    return renorm(sub(tuple(t) if isinstance(t, MultiNF) else t, depth))


NODE_FN = {}          # id(expression node) -> rules.Fn of the function it belongs to (filled by rules.Fn)


class MultiNF(tuple):
    """Normal form of a code expression together with its other readings (local helper lambdas applied;
    locals replaced by their unique reaching definition).  Equal to a normal form when any reading is:
    a rule that compares code with a documented expression then accepts temporaries the code introduced
    or removed.  As a tuple it is the reading as written."""
    def __new__(cls, plain, alts):
        o = tuple.__new__(cls, plain)
        o.alts = tuple(alts)
        return o

    def readings(self):
        return (tuple(self),) + self.alts

    def __eq__(self, other):
        mine = self.readings()
        theirs = other.readings() if isinstance(other, MultiNF) else (other,)
        return any(tuple.__eq__(a, b) if isinstance(a, tuple) and isinstance(b, tuple) else a == b for a in mine for b in theirs)

    def __ne__(self, other):
        return not self.__eq__(other)

    def __hash__(self):
        return tuple.__hash__(self)


def norm(expr, env=None, resolver=None, **kw):
    if expr is None:
        return ('absent',)          # e.g. a keyword argument that the call does not pass
    if isinstance(expr, str):
        from . import canon
        expr = canon._FoldConst().visit(ast.parse(expr, mode='eval')).body
    plain = Normalizer(env, resolver, **kw).n(expr)
    fn = NODE_FN.get(id(expr)) if resolver is None else None
    if fn is None or not isinstance(plain, tuple):
        return plain
    alts = []
    for only_l in (True, False):
        try:
            r = Normalizer(env, fn.resolver(expr, only_lambdas=only_l), **kw).n(expr)
        except Exception:
            continue
        if isinstance(r, tuple) and r != plain and '#phi' not in repr(r) and r not in alts:
            alts.append(r)
    try:
        if env is None:
            r = expand_temps(plain, fn.cdefs(**kw))
            if r != plain and r not in alts:
                alts.append(r)
    except Exception:
        pass
    return MultiNF(plain, alts) if alts else plain


def alpha_equal(a, b, rename_a=None, rename_b=None):
    """AST fragments equal after renaming names with the given maps (name -> canonical)."""
    return norm(a, {k: ('var', v) for k, v in (rename_a or {}).items()}) == \
        norm(b, {k: ('var', v) for k, v in (rename_b or {}).items()})


def show(t, depth=0):
    """Readable rendering of a normal form (for diagnostics)."""
    if not isinstance(t, tuple) or not t:
        return str(t)
    h = t[0]
    if h in ('var',):
        return str(t[1])
    if h in ('num', 'const'):
        return repr(t[1])
    if h == 'param':
        return 'arg%d' % t[1]
    if h == 'mul':
        return '(' + '*'.join(show(x) for x in t[1]) + ')'
    if h == 'add':
        return '(' + ' + '.join(show(x) for x in t[1]) + ')'
    if h == 'pow':
        return '%s**%s' % (show(t[1]), show(t[2]))
    if h == 'idx':
        return '%s[%s]' % (show(t[1]), show(t[2]))
    if h == 'attr':
        return '%s.%s' % (show(t[1]), t[2])
    if h == 'call':
        f = t[1] if isinstance(t[1], str) else show(t[1])
        return '%s(%s)' % (f, ', '.join([show(x) for x in t[2]] + ['%s=%s' % (k, show(v)) for k, v in t[3]]))
    if h == 'cmp':
        return '(%s %s %s)' % (show(t[2]), t[1], show(t[3]))
    return '%s(%s)' % (h, ', '.join(show(x) for x in t[1:]))


def make_resolver(cfg, rd, at_node, stop=(), only_lambdas=False):
    """Resolver that inlines `name` by its unique reaching plain assignment at `at_node`.
    Names in `stop` are never inlined.  Inlined sub-expressions are resolved at their own
    definition site (so chains x = f(y); z = g(x) work)."""
    def resolver(name_node, _at=at_node):
        nm = name_node.id
        if nm in stop:
            return None
        ds = rd.reaching(_at, nm)
        if not ds:
            return None
        if len(ds) > 1:
            # several definitions reach: the value is path dependent
            return ast.Name(id=nm + '#phi', ctx=ast.Load())
        d = ds[0]
        if d.kind == 'entry':
            return None
        v = rd.assigned_value(d, nm)
        if v is None:
            return None
        if only_lambdas and not isinstance(v, ast.Lambda):
            return None
        # in-place modification between def and use makes the value differ: refuse to inline
        for n in cfg.nodes:
            if nm in rd.mods[n.id] and n.id != d.id:
                if cfg.reaches_avoiding(d, n, []) and cfg.reaches_avoiding(n, _at, []):
                    return None
        return _Rebased(v, cfg, rd, d, stop, only_lambdas)
    return resolver


class _Rebased(ast.AST):
    """Marker wrapper: expression `expr` must be normalised with names resolved at node `at`."""
    _fields = ()

    def __init__(self, expr, cfg, rd, at, stop, only_lambdas=False):
        self.expr, self.cfg, self.rd, self.at, self.stop, self.only_lambdas = expr, cfg, rd, at, stop, only_lambdas


def _n_Rebased(self, e):
    old = self.resolver
    self.resolver = make_resolver(e.cfg, e.rd, e.at, e.stop, e.only_lambdas)
    try:
        return self.n(e.expr)
    finally:
        self.resolver = old


Normalizer.n__Rebased = _n_Rebased


# ---------------------------------------------------------------------------
# statement-level normal forms (for sibling blocks)

def norm_block(stmts, env=None, keep_messages=False):
    """Normal form of a statement list: structure + normal forms of the expressions.  Arguments of
    raised exceptions (messages) are dropped unless keep_messages."""
    N = Normalizer(env)

    def st(s):
        if isinstance(s, ast.If):
            return ('if', N.n(s.test), blk(s.body), blk(s.orelse))
        if isinstance(s, ast.Assign):
            return ('assign', tuple(N.n(t) for t in s.targets), N.n(s.value))
        if isinstance(s, ast.AugAssign):
            return ('aug', type(s.op).__name__, N.n(s.target), N.n(s.value))
        if isinstance(s, ast.Raise):
            e = s.exc
            if isinstance(e, ast.Call) and not keep_messages:
                return ('raise', dotted(e.func))
            return ('raise', N.n(e) if e is not None else None)
        if isinstance(s, ast.Expr):
            if isinstance(s.value, ast.Constant) and isinstance(s.value.value, str):
                return None
            return ('expr', N.n(s.value))
        if isinstance(s, ast.Return):
            return ('return', N.n(s.value) if s.value is not None else None)
        if isinstance(s, ast.For):
            return ('for', N.n(s.target), N.n(s.iter), blk(s.body), blk(s.orelse))
        if isinstance(s, ast.While):
            return ('while', N.n(s.test), blk(s.body), blk(s.orelse))
        if isinstance(s, ast.Try):
            return ('try', blk(s.body), tuple((dotted(h.type) if h.type is not None else None, blk(h.body))
                                              for h in s.handlers), blk(s.orelse), blk(s.finalbody))
        if isinstance(s, ast.Pass):
            return None
        if isinstance(s, (ast.Continue, ast.Break)):
            return (type(s).__name__.lower(),)
        return ('stmt', ast.dump(s))

    def blk(ss):
        return tuple(x for x in (st(s) for s in ss) if x is not None)
    return blk(stmts)


# ---------------------------------------------------------------------------
# pattern matching with metavariables (renaming-robust statement inventories)

AC_HEADS = {'add', 'mul', 'and', 'or', 'BitAnd', 'BitOr', 'BitXor'}


def unify(pat, term, binding, metas):
    """Match normal form `pat` (whose ('var', M) leaves with M in `metas` are metavariables) against
    `term`; returns an extended binding or None.  Metavariables bind consistently and injectively
    to variable or attribute terms (never to compound arithmetic), so the match is up to renaming
    only.  `metas` may be a dict name -> alias group: metavariables of one group may share a code
    name.  Operands of commutative nodes are matched in any order."""
    for b in _unify(pat, term, binding, metas):
        return b
    return None


def _group(metas, m):
    return metas.get(m, m) if isinstance(metas, dict) else m


class Metas(dict):
    """Metavariable table (name -> alias group) with optional definition maps used for expansion:
    pdefs: metavariable -> normal form of its defining pattern (the code may have inlined that temp);
    cdefs: code variable -> normal form of its unique plain definition (the code may have introduced
    a temp that the documented statement does not have)."""

    def __init__(self, names, pdefs=None, cdefs=None):
        dict.__init__(self, names if isinstance(names, dict) else {n: n for n in names})
        self.pdefs = pdefs or {}
        self.cdefs = cdefs or {}
        self.mdefs = {}          # metavariable with several documented definitions -> [(item index, rhs pattern)]
        self.ldefs = {}          # set per candidate statement: local -> nf of its unique reaching definition there


def _unify(pat, term, binding, metas, depth=0):
    if isinstance(pat, tuple) and len(pat) == 2 and pat[0] == 'var' and pat[1] in metas:
        m = pat[1]
        if m in binding:
            bm = binding[m]
            if bm == term or (isinstance(bm, tuple) and bm and bm[0] == 'expanded' and bm[1] == term):
                yield binding
                return
            # a role with several documented definitions (x = f(..); x = g(x)): the code may have fused them, so
            # where the pattern mentions x the code has one of its definitions written out
            if depth < 6 and not (isinstance(term, tuple) and term and term[0] in ('var', 'param', 'bound')):
                for idx_, pd_ in (getattr(metas, 'mdefs', {}).get(m, ()) if getattr(metas, 'mdefs_on', False) else ()):
                    for b in _unify(pd_, term, binding, metas, depth + 1):
                        b = dict(b)
                        b['__px__'] = b.get('__px__', frozenset()) | {(m, idx_)}
                        yield b
            return
        if isinstance(term, tuple) and term and term[0] in ('var', 'attr', 'param', 'bound'):
            for k, v in binding.items():
                if v == term and _group(metas, k) != _group(metas, m):
                    return          # injective across alias groups
            b = dict(binding)
            b[m] = term
            yield b
            return
        pd = getattr(metas, 'pdefs', {}).get(m)
        if pd is not None and depth < 6:
            # the code has inlined the temporary this metavariable stands for
            for b in _unify(pd, term, binding, metas, depth + 1):
                b = dict(b)
                b[m] = ('expanded', term)
                yield b
        if pd is None and depth < 6 and getattr(metas, 'mdefs_on', False):
            # several documented definitions, none met yet: the code has one of them written out here
            for idx_, pd_ in getattr(metas, 'mdefs', {}).get(m, ()):
                for b in _unify(pd_, term, binding, metas, depth + 1):
                    b = dict(b)
                    b['__px__'] = b.get('__px__', frozenset()) | {(m, idx_)}
                    yield b
        return
    if isinstance(pat, tuple) and isinstance(term, tuple):
        if term and term[0] == 'var' and len(term) == 2 and not (pat and pat[0] == 'var') and depth < 6:
            cd = getattr(metas, 'cdefs', {}).get(term[1])
            used_l = False
            if cd is None:
                # ... or one that has a single reaching definition at this statement
                cd = getattr(metas, 'ldefs', {}).get(term[1])
                used_l = cd is not None
            if cd is not None:
                # the code has introduced a temporary for a documented sub-expression
                for b in _unify(pat, cd, binding, metas, depth + 1):
                    if used_l:
                        b = dict(b)
                        b['__ldefs__'] = b.get('__ldefs__', frozenset()) | {(getattr(metas, 'cur', None), term[1])}
                    yield b
                return
        if len(pat) != len(term):
            return
        if pat and pat[0] in AC_HEADS and term[0] == pat[0]:
            if pat[0] in ('add', 'mul'):
                po, to = pat[1], term[1]
                found = False
                if len(po) == len(to):
                    for b in _unify_perm(list(po), list(to), binding, metas):
                        found = True
                        yield b
                if not found and depth < 6:
                    # a temporary for part of the sum / product (`h = f / 2` ... `1 - h`): written out, the operand merges
                    # into this sum / product
                    for i_, t_ in enumerate(to):
                        if isinstance(t_, tuple) and len(t_) == 2 and t_[0] == 'var':
                            cd = getattr(metas, 'cdefs', {}).get(t_[1])
                            if isinstance(cd, tuple) and cd and cd[0] in ('add', 'mul', 'num', 'pow'):
                                rest = list(to[:i_]) + [cd] + list(to[i_ + 1:])
                                try:
                                    nt = mk_add(rest) if pat[0] == 'add' else mk_mul(rest)
                                except Exception:
                                    continue
                                if nt != term:
                                    for b in _unify(pat, nt, binding, metas, depth + 1):
                                        yield b
                return
            po, to = list(pat[1:]), list(term[1:])
            if len(po) == 1 and isinstance(po[0], tuple) and po[0] and not isinstance(po[0][0], str):
                po, to = list(po[0]), list(to[0])     # ('BitAnd', (a, b)) form
                for b in _unify_perm(po, to, binding, metas):
                    yield b
                return
            for b in _unify_perm(po, to, binding, metas):
                yield b
            return
        for b in _unify_seq(list(pat), list(term), binding, metas):
            yield b
        return
    if pat == term:
        yield binding


def _unify_seq(ps, ts, binding, metas):
    if not ps:
        yield binding
        return
    for b in _unify(ps[0], ts[0], binding, metas):
        for b2 in _unify_seq(ps[1:], ts[1:], b, metas):
            yield b2


def _unify_perm(ps, ts, binding, metas):
    if not ps:
        yield binding
        return
    p = ps[0]
    for i, t in enumerate(ts):
        for b in _unify(p, t, binding, metas):
            for b2 in _unify_perm(ps[1:], ts[:i] + ts[i + 1:], b, metas):
                yield b2


def stmt_nf(st, N=None):
    """Normal form of one simple statement or of the header of a compound one."""
    N = N or Normalizer()
    if isinstance(st, ast.Assign):
        return ('assign', tuple(N.n(t) for t in st.targets), N.n(st.value))
    if isinstance(st, ast.AugAssign):
        return ('aug', type(st.op).__name__, N.n(st.target), N.n(st.value))
    if isinstance(st, ast.Expr):
        return ('expr', N.n(st.value))
    if isinstance(st, ast.Return):
        return ('return', N.n(st.value) if st.value is not None else None)
    if isinstance(st, ast.Raise):
        e = st.exc
        return ('raise', dotted(e.func) if isinstance(e, ast.Call) else (N.n(e) if e is not None else None))
    if isinstance(st, (ast.If, ast.While)):
        return (type(st).__name__.lower(), N.n(st.test))
    if isinstance(st, ast.For):
        return ('for', N.n(st.target), N.n(st.iter))
    if isinstance(st, (ast.Break, ast.Continue, ast.Pass)):
        return (type(st).__name__.lower(),)
    return ('stmt', ast.dump(st))


def parse_pattern(src, N=None):
    """'if X > 0:' / 'for A in B:' / 'while C:' headers or a simple statement -> normal form."""
    s = src.strip()
    if s.endswith(':') and s.split()[0] in ('if', 'elif', 'while', 'for'):
        if s.startswith('elif'):
            s = s[2:]
        s = s + '\n    pass\n'
    from . import canon
    tree = canon._Tests().visit(canon._FoldConst().visit(ast.parse(s)))
    body = canon._block(tree.body)
    return stmt_nf(body[0], N)


def parse_block(src):
    """Parse statement source and bring it to the same canonical shape as loaded modules (canon.py)."""
    from . import canon
    return canon._block(canon._Tests().visit(canon._FoldConst().visit(ast.parse(src))).body)
