"""Resolution of third-party names against the installed libraries (the Python analogue of
type-checking against the real build's headers).  Only third-party/stdlib modules are imported,
never FlowCal."""
import ast
import importlib
import inspect
import warnings

from .sym import dotted

_cache = {}
SKIP_ROOTS = {'FlowCal', 'Tkinter', 'tkFileDialog'}


def _import(name):
    if name in _cache:
        return _cache[name]
    try:
        with warnings.catch_warnings():
            warnings.simplefilter('ignore')
            m = importlib.import_module(name)
    except Exception as e:  # ImportError and friends
        m = e
    _cache[name] = m
    return m


def resolve(real_dotted):
    """Resolve 'numpy.Inf' -> (obj, None) or (None, 'reason')."""
    parts = real_dotted.split('.')
    # longest importable module prefix
    obj, i = None, 0
    for k in range(len(parts), 0, -1):
        m = _import('.'.join(parts[:k]))
        if not isinstance(m, Exception):
            obj, i = m, k
            break
    if obj is None:
        return None, 'module %s cannot be imported' % parts[0]
    for p in parts[i:]:
        try:
            with warnings.catch_warnings():
                warnings.simplefilter('ignore')
                obj = getattr(obj, p)
        except AttributeError as e:
            return None, str(e).split('\n')[0][:160]
        except Exception as e:
            return None, '%s: %s' % (type(e).__name__, str(e)[:120])
    return obj, None


def eval_version_test(test, imports):
    """Evaluate `packaging.version.parse(X.__version__) <op> packaging.version.parse('c')` with the
    installed version.  Returns True/False, or None when the test has another shape."""
    if not (isinstance(test, ast.Compare) and len(test.ops) == 1):
        # `a and <version test>`: not decided here
        return None

    def side(e):
        if isinstance(e, ast.Call) and (dotted(e.func) or '').endswith('version.parse') and len(e.args) == 1:
            a = e.args[0]
            if isinstance(a, ast.Constant) and isinstance(a.value, str):
                return a.value
            d = dotted(a)
            if d and d.endswith('.__version__'):
                root = d.split('.')[0]
                real = imports.get(root, root) + d[len(root):]
                obj, err = resolve(real)
                if err is None:
                    return str(obj)
        return None
    l, r = side(test.left), side(test.comparators[0])
    if l is None or r is None:
        return None
    from packaging.version import parse
    a, b = parse(l), parse(r)
    op = type(test.ops[0]).__name__
    return {'Lt': a < b, 'LtE': a <= b, 'Gt': a > b, 'GtE': a >= b, 'Eq': a == b, 'NotEq': a != b}.get(op)


def locally_bound(func):
    names = set()
    a = func.args
    for x in a.posonlyargs + a.args + a.kwonlyargs:
        names.add(x.arg)
    if a.vararg:
        names.add(a.vararg.arg)
    if a.kwarg:
        names.add(a.kwarg.arg)
    for n in ast.walk(func):
        if isinstance(n, ast.Name) and isinstance(n.ctx, (ast.Store, ast.Del)):
            names.add(n.id)
        elif isinstance(n, ast.ExceptHandler) and n.name:
            names.add(n.name)
        elif isinstance(n, (ast.Import, ast.ImportFrom)):
            for al in n.names:
                names.add((al.asname or al.name).split('.')[0])
    return names


def scan(mod, root, parents=None):
    """Yield records for every maximal attribute chain in `root` rooted at an imported third-party
    module alias: dict(node, chain, real, obj, err, pruned, guarded, call)."""
    parent = {}
    for n in ast.walk(root):
        for c in ast.iter_child_nodes(n):
            parent[id(c)] = n
    funcs_local = {}

    def enclosing_func(n):
        cur = parent.get(id(n))
        while cur is not None and not isinstance(cur, (ast.FunctionDef, ast.AsyncFunctionDef, ast.Lambda)):
            cur = parent.get(id(cur))
        return cur

    def local_names(n):
        f = enclosing_func(n)
        out = set()
        while f is not None:
            if isinstance(f, ast.Lambda):
                out.update(a.arg for a in f.args.args)
            else:
                if id(f) not in funcs_local:
                    funcs_local[id(f)] = locally_bound(f)
                out.update(funcs_local[id(f)])
            f = enclosing_func(f)
        return out

    def pruned_or_guarded(n):
        """(pruned by a version test evaluated false, guarded by try catching AttributeError/ImportError)"""
        pruned = guarded = False
        prev, cur = n, parent.get(id(n))
        while cur is not None:
            if isinstance(cur, ast.If):
                v = eval_version_test(cur.test, mod.imports)
                if v is not None:
                    in_body = any(prev is x for x in cur.body)
                    in_else = any(prev is x for x in cur.orelse)
                    if (in_body and v is False) or (in_else and v is True):
                        pruned = True
            elif isinstance(cur, ast.Try) and any(prev is x for x in cur.body):
                for h in cur.handlers:
                    ts = [None] if h.type is None else (h.type.elts if isinstance(h.type, ast.Tuple) else [h.type])
                    for t in ts:
                        nm = None if t is None else (dotted(t) or '').split('.')[-1]
                        if nm in (None, 'AttributeError', 'ImportError', 'Exception', 'BaseException',
                                  'ModuleNotFoundError'):
                            guarded = True
            prev, cur = cur, parent.get(id(cur))
        return pruned, guarded

    for n in ast.walk(root):
        if isinstance(n, ast.Attribute) and not isinstance(parent.get(id(n)), ast.Attribute):
            d = dotted(n)
        elif isinstance(n, ast.Name) and not isinstance(parent.get(id(n)), ast.Attribute) \
                and isinstance(n.ctx, ast.Load) and n.id in mod.imports and '.' in mod.imports[n.id]:
            d = n.id       # `from x import y` used bare
        else:
            continue
        if not d:
            continue
        rootname = d.split('.')[0]
        if rootname not in mod.imports or rootname in local_names(n):
            continue
        real = mod.imports[rootname] + d[len(rootname):]
        if real.split('.')[0] in SKIP_ROOTS:
            continue
        if isinstance(n.ctx if hasattr(n, 'ctx') else None, ast.Store):
            continue
        obj, err = resolve(real)
        pr, gd = pruned_or_guarded(n)
        par = parent.get(id(n))
        call = par if isinstance(par, ast.Call) and par.func is n else None
        yield {'node': n, 'chain': d, 'real': real, 'obj': obj, 'err': err, 'pruned': pr,
               'guarded': gd, 'call': call}


def check_call_signature(obj, call):
    """Return None if the call fits the installed callee's signature (or it cannot be inspected),
    else a message."""
    try:
        sig = inspect.signature(obj)
    except (TypeError, ValueError):
        return None
    params = sig.parameters
    if any(p.kind == p.VAR_KEYWORD for p in params.values()):
        has_varkw = True
    else:
        has_varkw = False
    has_varpos = any(p.kind == p.VAR_POSITIONAL for p in params.values())
    if any(isinstance(a, ast.Starred) for a in call.args) or any(k.arg is None for k in call.keywords):
        # *args / **kwargs at the call site: only explicit keywords can be checked
        pass
    else:
        npos = len([p for p in params.values() if p.kind in (p.POSITIONAL_ONLY, p.POSITIONAL_OR_KEYWORD)])
        if not has_varpos and len(call.args) > npos:
            return 'takes at most %d positional arguments, %d given' % (npos, len(call.args))
    if not has_varkw:
        for k in call.keywords:
            if k.arg is not None and (k.arg not in params or params[k.arg].kind == params[k.arg].POSITIONAL_ONLY):
                return 'has no keyword argument %r (signature %s)' % (k.arg, str(sig)[:120])
    return None


def api_obligations(cx, mod, root, qual_of, rule='API', min_found=1):
    """Register one obligation per third-party name/call in `root`."""
    n = 0
    for r in scan(mod, root):
        if r['pruned']:
            cx.count('api_pruned_by_version')
            continue
        n += 1
        q = qual_of(r['node'])
        ok = r['err'] is None or r['guarded']
        cx.ob(rule, 'third-party name %s resolves in the installed library' % r['real'], ok, mod, r['node'], q,
              detail=('' if ok else 'missing: %s' % r['err']), key=r['real'])
        if r['err'] is None and r['call'] is not None and callable(r['obj']) and not r['guarded']:
            msg = check_call_signature(r['obj'], r['call'])
            cx.count('api_calls_signature_checked')
            cx.ob(rule, 'call of %s fits the installed signature' % r['real'], msg is None, mod, r['call'], q,
                  detail=msg or '', key=r['real'] + '|' + ','.join(sorted(k.arg or '**' for k in r['call'].keywords)))
    cx.floor(rule, n, min_found, 'third-party names')
    return n
