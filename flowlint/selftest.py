"""Self-test corpus of the thorough tier (filled in below): the checker must fire on every breaking
variant of the seeded/regression corpus and stay silent on every behaviour-preserving twin."""


def run(cx, pid):
    cx.note('self-test corpus not built yet')
