"""Self-test corpus of the thorough tier.

For the property under check: every seeded breaking change of /verif/seeded (sub-agent changes that
were confirmed to break the property while passing the test-suite, and the reversed `fix:` commits
that re-introduce the genuine defects) is applied to a scratch copy of /repo's package in a fresh
temporary directory; the checker must report a violation on it.  Two behaviour-preserving twins
computed on the syntax tree (reformat, rename-locals) and the 50 behaviour-preserving refactorings of
/verif/seeded/twin-* (written by sub-agents, confirmed to leave tests and behaviour unchanged) must
leave the checker silent.  A miss or a
twin alarm means the checker is broken: ANALYSIS-ERROR, never a verdict about /repo.
Nothing is executed: variants are parsed and analysed like /repo itself."""
import ast
import glob
import importlib
import json
import os
import shutil
import subprocess
import tempfile
from concurrent.futures import ProcessPoolExecutor

from . import core

VERIF = core.VERIF
MODS = ['io', 'transform', 'gate', 'stats', 'mef', 'plot', 'excel_ui']


def _twin_module():
    import importlib.util
    spec = importlib.util.spec_from_file_location('twins', os.path.join(VERIF, 'tools', 'twins.py'))
    m = importlib.util.module_from_spec(spec)
    spec.loader.exec_module(m)
    return m


def _analyse(pid, root):
    """Run the property's rules on `root`; returns (n_violations_unlisted, error or None, n_obligations)."""
    cx = core.Context(pid, None, 'quick', 0)
    try:
        cx.repo = core.Repo(root)
        core.run_rules(cx, pid)
        err = None
    except core.AnalysisError as e:
        err = str(e)
    except Exception as e:
        err = 'internal %s: %s' % (type(e).__name__, e)
    known = {k['key'] for k in core.load_known().get('known', []) if k.get('property') == pid}
    unlisted = [v for v in cx.violations if v['key'] not in known]
    return len(unlisted), err, len(cx.obligations), [v['instance'] for v in unlisted[:3]]


def _one(args):
    pid, kind, name, patch, reverse = args
    tmp = tempfile.mkdtemp(prefix='flowlint_selftest_')
    try:
        if kind == 'twin':
            _twin_module().make(name, tmp)
        else:
            shutil.copytree('/repo/FlowCal', os.path.join(tmp, 'FlowCal'))
            p = subprocess.run(['patch', '-p1', '-s', '-d', tmp] + (['-R'] if reverse else []), stdin=open(patch),
                               stdout=subprocess.PIPE, stderr=subprocess.STDOUT)
            if p.returncode != 0:
                return (kind, name, 'does-not-apply', None, 0, [])
            for m in MODS:
                src = open(os.path.join(tmp, 'FlowCal', m + '.py')).read()
                compile(src, m, 'exec')
        nv, err, nob, inst = _analyse(pid, tmp)
        return (kind, name, 'ok', err, nv, inst)
    finally:
        shutil.rmtree(tmp, ignore_errors=True)


def run(cx, pid):
    jobs = []
    for d in sorted(glob.glob(os.path.join(VERIF, 'seeded', '*', 'meta.json'))):
        meta = json.load(open(d))
        if meta.get('kind') == 'refactoring':
            continue
        if meta.get('property') == pid or pid in meta.get('also', []):
            jobs.append((pid, 'breaking', os.path.basename(os.path.dirname(d)), os.path.join(os.path.dirname(d), 'patch.diff'),
                         bool(meta.get('reverse'))))
    for t in ('reformat', 'rename-locals'):
        jobs.append((pid, 'twin', t, None, False))
    # behaviour-preserving refactorings written by sub-agents (confirmed: test-suite and behaviour unchanged)
    limits = {}
    for d in sorted(glob.glob(os.path.join(VERIF, 'seeded', 'twin-*', 'meta.json'))):
        name = os.path.basename(os.path.dirname(d))
        lim = json.load(open(d)).get('known_limitation')
        if lim:
            limits[name] = lim      # behaviour-preserving edit that the rules are known to report (DESIGN.md section 8)
        jobs.append((pid, 'refactoring', name, os.path.join(os.path.dirname(d), 'patch.diff'), False))
    with ProcessPoolExecutor(min(16, max(1, len(jobs)))) as ex:
        results = list(ex.map(_one, jobs))
    missed, alarms, stale, known_limits = [], [], [], []
    n_break = n_twin = 0
    rows = []
    for kind, name, status, err, nv, inst in results:
        rows.append('%s %s: %s' % (kind, name, 'stale patch' if status != 'ok' else
                                   ('%d violation(s)%s' % (nv, (' / analysis error: ' + err[:80]) if err else ''))))
        if status != 'ok':
            stale.append(name)
            continue
        if kind == 'breaking':
            n_break += 1
            if nv == 0:
                missed.append(name + (' (analysis error: %s)' % err[:100] if err else ''))
        else:
            n_twin += 1
            if (nv != 0 or err) and name in limits:
                known_limits.append(name)
            elif nv != 0 or err:
                alarms.append('%s (%s)' % (name, err[:100] if err else ', '.join(inst)))
    cx.tables['self-test variants'] = rows
    cx.count('selftest_breaking_variants', n_break)
    cx.count('selftest_twins', n_twin)
    cx.count('selftest_stale_patches', len(stale))
    cx.count('selftest_known_limitations_alarming', len(known_limits))
    if known_limits:
        cx.note('behaviour-preserving refactorings this check is known to report (documented limitation): %s' % ', '.join(sorted(known_limits)))
    for kind, name, status, err, nv, inst in results:
        if status == 'ok':
            okv = (nv > 0) if kind == 'breaking' else ((nv == 0 and not err) or name in limits)
            cx.obligations.append({'rule': 'SELFTEST', 'instance': '%s variant %s: checker %s' % (
                kind, name, 'fires' if kind == 'breaking' else 'stays silent'), 'site': 'scratch copy of /repo/FlowCal',
                'status': 'discharged' if okv else 'VIOLATED', 'detail': '', 'key': 'SELFTEST|%s|%s' % (kind, name)})
            cx.rules['SELFTEST'] = cx.rules.get('SELFTEST', 0) + 1
    if missed or alarms:
        # a broken checker is not a verdict about /repo
        cx.obligations = [o for o in cx.obligations if o['rule'] != 'SELFTEST' or o['status'] == 'discharged']
        raise core.AnchorError('self-test failed: checker silent on breaking variant(s) %s; alarm on twin(s) %s' % (missed, alarms))
    if n_break == 0:
        cx.note('no seeded breaking variant for this property')
