"""Reusable rule helpers built on cfg / reaching definitions / normal forms."""
import ast
import builtins

from .cfg import CFG, ReachingDefs, target_names, root_name
from .core import AnalysisError, norm_stmt
from . import sym
from .sym import dotted


class Fn(object):
    """A function under analysis: AST + CFG + reaching definitions (built lazily)."""

    def __init__(self, cx, qual):
        self.cx = cx
        self.qual = qual
        self.mod, self.ast = cx.fn(qual)
        self._cfg = None
        self._rd = None
        self.parent = {}
        for n in ast.walk(self.ast):
            for c in ast.iter_child_nodes(n):
                self.parent[id(c)] = n
                # expressions of this function: sym.norm() reads them also with helpers applied and locals inlined
                if isinstance(c, ast.expr):
                    sym.NODE_FN[id(c)] = self

    @property
    def cfg(self):
        if self._cfg is None:
            self._cfg = CFG(self.ast)
        return self._cfg

    @property
    def rd(self):
        if self._rd is None:
            self._rd = ReachingDefs(self.cfg)
        return self._rd

    @property
    def params(self):
        a = self.ast.args
        return [x.arg for x in a.posonlyargs + a.args + a.kwonlyargs]

    def default_of(self, pname):
        a = self.ast.args
        pos = a.posonlyargs + a.args
        defaults = [None] * (len(pos) - len(a.defaults)) + list(a.defaults)
        for p, d in zip(pos, defaults):
            if p.arg == pname:
                return d
        for p, d in zip(a.kwonlyargs, a.kw_defaults):
            if p.arg == pname:
                return d
        return None

    # -- walking ---------------------------------------------------------------
    def walk(self, root=None, into_nested=False):
        """ast.walk that does not descend into nested function/class definitions."""
        root = root or self.ast
        stack = list(ast.iter_child_nodes(root))
        while stack:
            n = stack.pop()
            yield n
            if not into_nested and isinstance(n, (ast.FunctionDef, ast.ClassDef, ast.AsyncFunctionDef)):
                continue
            stack.extend(ast.iter_child_nodes(n))

    def ctx_ob(self, rule, inst, st, binding=None):
        """CONTEXT obligation for one statement: it runs under the conditions recorded in contexts.json."""
        c = run_context(self, st, binding, resolved=False)
        if c is not None:
            self.cx.context_ob(self, rule, inst, st, {'as written': c, 'resolved': run_context(self, st, binding, resolved=True),
                                                      'temporaries written out': run_context(self, st, binding, resolved='temps')})

    def exits_ob(self, rule):
        """CONTEXT obligations for the exits of a function that has no inventory: its returns and its raises
        (exception type) with the conditions under which they run."""
        context_obligations(self, rule, {}, {}, None, raises_only=True)

    def callee(self, call):
        """Dotted name of the callee; a local name bound once to a dotted callable
        (`strptime = datetime.datetime.strptime`) resolves to that callable."""
        d = dotted(call.func)
        if isinstance(call.func, ast.Name):
            al = getattr(self, '_callee_alias', None)
            if al is None:
                al = {}
                cnt = {}
                for st in self.walk(None):
                    if isinstance(st, ast.Assign) and len(st.targets) == 1 and isinstance(st.targets[0], ast.Name):
                        cnt[st.targets[0].id] = cnt.get(st.targets[0].id, 0) + 1
                        if isinstance(st.value, ast.Attribute) and dotted(st.value):
                            al[st.targets[0].id] = dotted(st.value)
                    elif isinstance(st, (ast.AugAssign, ast.For, ast.With)):
                        for t in ast.walk(st.target if not isinstance(st, ast.With) else st):
                            if isinstance(t, ast.Name) and isinstance(t.ctx, ast.Store):
                                cnt[t.id] = cnt.get(t.id, 0) + 2
                al = {k: v for k, v in al.items() if cnt.get(k) == 1 and k not in self.params}
                self._callee_alias = al
            return al.get(d, d)
        return d

    def calls(self, name=None, pred=None, root=None):
        out = []
        for n in self.walk(root, into_nested=True):
            if isinstance(n, ast.Call):
                d = self.callee(n)
                if name is not None:
                    names = (name,) if isinstance(name, str) else tuple(name)
                    if d not in names and not (d and any(d.endswith('.' + x) for x in names)):
                        continue
                if pred is not None and not pred(n):
                    continue
                out.append(n)
        out.sort(key=lambda c: (c.lineno, c.col_offset))
        return out

    def stmts(self, types, root=None):
        out = [n for n in self.walk(root) if isinstance(n, types)]
        out.sort(key=lambda c: (c.lineno, c.col_offset))
        return out

    def node(self, astnode):
        n = self.cfg.node_containing(astnode)
        if n is None:
            raise AnalysisError('%s: no CFG node for %s' % (self.qual, norm_stmt(astnode)))
        return n

    def site(self, node):
        return self.cx.site(self.mod, node, self.qual)

    def ancestors(self, node):
        cur = self.parent.get(id(node))
        while cur is not None:
            yield cur
            cur = self.parent.get(id(cur))

    def in_body_of(self, node, compound, field='body'):
        """Is `node` (transitively) inside compound.<field>?"""
        prev = node
        for a in self.ancestors(node):
            if a is compound:
                return any(prev is x for x in getattr(compound, field, []))
            prev = a
        return False

    # -- values -----------------------------------------------------------------
    def resolver(self, at_astnode, stop=(), only_lambdas=False):
        return sym.make_resolver(self.cfg, self.rd, self.node(at_astnode), stop, only_lambdas)

    def nf(self, expr, at=None, stop=(), env=None):
        """Normal form of `expr` with locals inlined through unique reaching definitions at `at`."""
        at = at if at is not None else expr
        return sym.norm(expr, env=env, resolver=self.resolver(at, stop))

    def reaching_values(self, name, at_astnode):
        """AST expressions that may have been assigned to `name` when control reaches at_astnode
        (None entries for non-plain definitions such as parameters or loop targets)."""
        n = self.node(at_astnode)
        return [(d, self.rd.assigned_value(d, name)) for d in self.rd.reaching(n, name)]

    def ob(self, rule, inst, ok, node=None, detail='', key=None):
        # a statement at which some rule discharged an obligation counts as documented (see NOREDEF)
        if ok and node is not None and node is not self.ast:
            try:
                st = self.cfg.stmt_of(node)
            except Exception:
                st = None
            if st is not None:
                self.cx.documented.add(id(st))
        return self.cx.ob(rule, inst, ok, self.mod, node if node is not None else self.ast,
                          self.qual, detail, key)

    # -- equivalence up to temporaries ---------------------------------------------
    def cdefs(self, **normkw):
        """local name -> normal form of its unique plain definition (names never rebound, never modified
        in place, not parameters): temporaries the code may have introduced for readability."""
        key = tuple(sorted(normkw.items()))
        cache = self.__dict__.setdefault('_cdefs', {})
        if key in cache:
            return cache[key]
        counts, mutated = {}, set()
        for n_ in self.cfg.nodes:
            for nm in self.rd.gen[n_.id]:
                counts[nm] = counts.get(nm, 0) + 1
            mutated |= self.rd.mods[n_.id]
        for c in self.calls():
            if isinstance(c.func, ast.Attribute) and isinstance(c.func.value, ast.Name) and c.func.attr in (
                    'append', 'extend', 'insert', 'pop', 'remove', 'sort', 'reverse', 'update', 'clear', 'fill'):
                mutated.add(c.func.value.id)
        out = {}
        for st_ in self.stmts(ast.Assign):
            if len(st_.targets) == 1 and isinstance(st_.targets[0], ast.Name):
                nm = st_.targets[0].id
                if counts.get(nm) == 1 and nm not in mutated and nm not in self.params:
                    out[nm] = sym.Normalizer(**normkw).n(st_.value)
        cache[key] = out
        return out

    def temp_defs(self):
        """name -> defining expression (AST) of the single-definition, never-modified locals."""
        if getattr(self, '_temp_defs', None) is None:
            cd = self.cdefs()
            out = {}
            for st_ in self.stmts(ast.Assign):
                if len(st_.targets) == 1 and isinstance(st_.targets[0], ast.Name) and st_.targets[0].id in cd:
                    out[st_.targets[0].id] = st_.value
            self._temp_defs = out
        return self._temp_defs

    def eqv(self, expr, spec, metas=(), fixed=None, env=None, **normkw):
        """Does code expression `expr` compute the documented expression `spec` (source string or normal
        form), up to temporaries introduced by the code?  Returns the binding of `metas` or None."""
        pat = sym.norm(spec, env=env, **normkw) if isinstance(spec, str) else spec
        term = sym.Normalizer(**normkw).n(expr) if isinstance(expr, ast.AST) else expr
        m = sym.Metas({x: x for x in metas}, {}, self.cdefs(**normkw))
        init = {k: (('var', v) if isinstance(v, str) else v) for k, v in (fixed or {}).items()}
        for b in sym._unify(pat, term, init, m):
            return b
        return None

    def eqv_any(self, expr, *specs, **kw):
        return any(self.eqv(expr, s, **kw) is not None for s in specs)


# ---------------------------------------------------------------------------
# raising / guards

def always_raises(stmts):
    """Does this statement list end in `raise` on every path (syntactically)?"""
    if not stmts:
        return False
    last = stmts[-1]
    if isinstance(last, ast.Raise):
        return True
    if isinstance(last, ast.If):
        return always_raises(last.body) and always_raises(last.orelse)
    return False


def raised_types(stmts):
    out = set()
    for st in stmts:
        for n in ast.walk(st):
            if isinstance(n, ast.Raise) and n.exc is not None:
                e = n.exc.func if isinstance(n.exc, ast.Call) else n.exc
                d = dotted(e)
                if d:
                    out.add(d.split('.')[-1])
    return out


def guards(fn, mentions=None, exc=None, root=None):
    """If statements one of whose branches always raises.  Returns list of
    (ifstmt, passing_edge_value) where passing_edge_value is the truth value of the test on the
    edge that does NOT raise.  `mentions`: predicate on the test expression."""
    out = []
    for st in fn.stmts(ast.If, root):
        br = None
        if always_raises(st.body) and not always_raises(st.orelse):
            br = (False, st.body)
        elif st.orelse and always_raises(st.orelse) and not always_raises(st.body):
            br = (True, st.orelse)
        if br is None:
            continue
        if exc is not None and not (raised_types(br[1]) & set(exc)):
            continue
        if mentions is not None and not mentions(st.test):
            # the test may be written through temporaries (`n = data.shape[0]; if n < k`): look at it with them written out
            try:
                if not mentions(expand_temps_ast(fn, st.test)):
                    continue
            except Exception:
                continue
        out.append((st, br[0]))
    return out


def guard_dominates(fn, ifstmt, passing, sink_ast):
    a_t, a_f = fn.cfg.assume[id(ifstmt)]
    g = a_t if passing else a_f
    return fn.cfg.dominates(g, fn.node(sink_ast))


def names_in(expr):
    return {n.id for n in ast.walk(expr) if isinstance(n, ast.Name)}


def expand_temps_ast(fn, expr, depth=0):
    """Copy of `expr` with the function's single-definition temporaries written out (AST level)."""
    import copy as _copy
    tdefs = fn.temp_defs()

    class T(ast.NodeTransformer):
        def __init__(self, d):
            self.d = d

        def visit_Name(self, n):
            if isinstance(n.ctx, ast.Load) and n.id in tdefs and self.d < 6:
                return T(self.d + 1).visit(_copy.deepcopy(tdefs[n.id]))
            return n
    return T(depth).visit(_copy.deepcopy(expr))


def strings_in(expr):
    return {n.value for n in ast.walk(expr) if isinstance(n, ast.Constant) and isinstance(n.value, str)}


def mentions_names(*names):
    s = set(names)
    return lambda test: bool(names_in(test) & s)


# ---------------------------------------------------------------------------
# exceptions

def exc_class(name):
    name = name.split('.')[-1]
    c = getattr(builtins, name, None)
    return c if isinstance(c, type) and issubclass(c, BaseException) else None


def handler_types(h):
    """Names caught by an ExceptHandler; ['BaseException'] for a bare except."""
    if h.type is None:
        return ['BaseException']
    ts = h.type.elts if isinstance(h.type, ast.Tuple) else [h.type]
    return [dotted(t) or '?' for t in ts]


def handler_catches(h, exc_name):
    e = exc_class(exc_name)
    for t in handler_types(h):
        t = t.split('.')[-1]
        if t == exc_name.split('.')[-1]:
            return True
        c = exc_class(t)
        if c is not None and e is not None and issubclass(e, c):
            return True
    return False


def enclosing_tries(fn, node):
    """Try statements whose *body* contains node, innermost first."""
    out = []
    prev = node
    for a in fn.ancestors(node):
        if isinstance(a, ast.Try) and any(prev is x for x in a.body):
            out.append(a)
        prev = a
    return out


def caught(fn, node, exc_name):
    """Is an exception of type exc_name raised at `node` caught by an enclosing try (inside fn)?
    Returns the handler or None."""
    for t in enclosing_tries(fn, node):
        for h in t.handlers:
            if handler_catches(h, exc_name):
                return h
    return None


# ---------------------------------------------------------------------------
# structure helpers

def assigned_names(stmts):
    out = set()
    for st in stmts:
        for n in ast.walk(st):
            if isinstance(n, ast.Assign):
                for t in n.targets:
                    out.update(target_names(t))
            elif isinstance(n, (ast.AugAssign, ast.AnnAssign)):
                out.update(target_names(n.target))
            elif isinstance(n, (ast.For, ast.comprehension)):
                out.update(target_names(n.target))
    return out


def subscript_stores(fn, root=None):
    """(statement, target Subscript/Attribute) pairs of all stores through subscripts/attributes."""
    out = []
    for st in fn.stmts((ast.Assign, ast.AugAssign), root):
        tgts = st.targets if isinstance(st, ast.Assign) else [st.target]
        for t in tgts:
            for sub in (t.elts if isinstance(t, (ast.Tuple, ast.List)) else [t]):
                if isinstance(sub, (ast.Subscript, ast.Attribute)):
                    out.append((st, sub))
    return out


def const_value(node):
    """Python value of a literal expression (numbers, strings, tuples/lists of them, -x)."""
    try:
        return ast.literal_eval(node)
    except Exception:
        return None


def kwarg(call, name, pos=None):
    """Argument `name` of a call, given by keyword or - when the callee's parameter list is known (repository
    callables by name, third-party ones through inspect) - by position."""
    for k in call.keywords:
        if k.arg == name:
            return k.value
    if pos is None:
        d = dotted(call.func)
        if d:
            ps = None
            last = d.split('.')[-1]
            last2 = '.'.join(d.split('.')[-2:])
            if d.split('.')[0] == 'FlowCal' and len(d.split('.')) == 3 and last2 in sym.REPO_SIGS:
                ps = sym.REPO_SIGS[last2]
            elif last in sym.REPO_SIGS:
                ps = sym.REPO_SIGS[last]
            elif d.split('.')[0] in sym.EXT_ROOTS:
                ps = sym._ext_params(d)
            if ps and name in ps:
                pos = ps.index(name)
    if pos is not None and len(call.args) > pos and not any(isinstance(a, ast.Starred) for a in call.args[:pos + 1]):
        return call.args[pos]
    return None


def is_none(e):
    return isinstance(e, ast.Constant) and e.value is None


def is_none_test(test, name=None):
    """`x is None` (returns x's name) else None."""
    if isinstance(test, ast.Compare) and len(test.ops) == 1 and isinstance(test.ops[0], ast.Is) \
            and is_none(test.comparators[0]) and isinstance(test.left, ast.Name):
        if name is None or test.left.id == name:
            return test.left.id
    return None


# ---------------------------------------------------------------------------
# specification comparison through normal forms

def vars_of(t, acc=None):
    acc = set() if acc is None else acc
    if isinstance(t, tuple):
        if t and t[0] == 'var' and len(t) == 2 and isinstance(t[1], str):
            acc.add(t[1])
        else:
            for x in t:
                vars_of(x, acc)
    return acc


def module_level_names(mod):
    out = set(mod.imports)
    for st in mod.tree.body:
        if isinstance(st, (ast.FunctionDef, ast.ClassDef)):
            out.add(st.name)
        elif isinstance(st, ast.Assign):
            for t in st.targets:
                out.update(target_names(t))
    return out


def spec_check(fn, rule, inst, expr, spec, roles=None, opaque=(), at=None, node=None, stop=()):
    """Compare the normal form of code expression `expr` (locals inlined at `at`) with the normal
    form of the specification expression `spec` (a Python expression string over role names).

    roles: spec name -> code AST/normal form the name stands for.  A code normal form that still
    contains an unresolved local (not a parameter, module-level name, or listed in `opaque`) is an
    unrecognised idiom (AnalysisError), not a verdict."""
    at = at if at is not None else expr
    code_nf = fn.nf(expr, at=at, stop=tuple(stop) + tuple(opaque))
    env = {}
    for k, v in (roles or {}).items():
        env[k] = fn.nf(v, at=at, stop=tuple(stop) + tuple(opaque)) if isinstance(v, ast.AST) else v
    spec_nf = sym.norm(spec, env=env)
    allowed = set(fn.params) | set(opaque) | module_level_names(fn.mod) | set(dir(builtins)) | {'inf', 'pi', 'self'}
    allowed |= {v for v in vars_of(spec_nf)}
    phis = {v[:-4] for v in vars_of(code_nf) if v.endswith('#phi')}
    pphi = sorted(p for p in phis if p in fn.params)
    if pphi:
        return fn.ob(rule, inst, False, node if node is not None else expr,
                     detail='argument %s is replaced on some path before it is used here' % ', '.join(pphi), key=inst)
    loose = {v for v in vars_of(code_nf) if v not in allowed and '.' not in v}
    if loose:
        raise AnalysisError('%s %s: cannot resolve local name(s) %s in `%s` (unrecognised idiom)'
                            % (fn.qual, inst, sorted(loose), norm_stmt(expr)))
    ok = code_nf == spec_nf
    return fn.ob(rule, inst, ok, node if node is not None else expr,
                 detail='' if ok else 'code computes %s, specification is %s' % (sym.show(code_nf), sym.show(spec_nf)),
                 key=inst)


# ---------------------------------------------------------------------------
# ONCE: a statement executes exactly once on every normal path through a loop iteration

def loop_nodes(fn, loop):
    """(for/test node, body-entry node) of a For/While statement."""
    head = fn.cfg.node_of(loop)
    if isinstance(loop, ast.For):
        body_in = [n for n in fn.cfg.succ(head) if n.kind == 'join' and n.label == 'for-body'][0]
    else:
        body_in = fn.cfg.assume[id(loop)][0]
    return head, body_in


def once_per_iteration(fn, loop, stmt):
    """Returns (ok, why).  Branches on loop-invariant flag names (`if full_output:`) are treated as
    one consistent choice per run: the statement must then be unconditional inside that branch."""
    inv = assigned_names(loop.body) | set(target_names(loop.target) if isinstance(loop, ast.For) else [])
    anchor = stmt
    prev = stmt
    for a in fn.ancestors(stmt):
        if a is loop:
            break
        if isinstance(a, ast.If) and fn.in_body_of(prev, a, 'body') and not a.orelse:
            t = a.test.operand if isinstance(a.test, ast.UnaryOp) and isinstance(a.test.op, ast.Not) else a.test
            if isinstance(t, ast.Name) and t.id not in inv:
                anchor = a
                prev = a
                continue
            # the statement must be a direct child of the flag block
        if isinstance(a, (ast.For, ast.While)):
            return False, 'inside a nested loop'
        if anchor is not a and not isinstance(a, ast.If):
            pass
        if isinstance(a, ast.If):
            # conditional on something that varies per iteration
            anchor = None
            break
        prev = a
    if anchor is None:
        return False, 'executed only under a per-iteration condition'
    # between stmt and anchor only flag-ifs: stmt must be a direct child of the innermost flag-if body
    par = fn.parent.get(id(stmt))
    if par is not loop and not (isinstance(par, ast.If) and any(stmt is x for x in par.body)):
        return False, 'nested in %s' % type(par).__name__
    head, body_in = loop_nodes(fn, loop)
    an = fn.cfg.node_of(anchor) or fn.node(anchor)
    if fn.cfg.reaches_avoiding(body_in, head, [an]):
        return False, 'a normal path through the iteration skips it'
    return True, ''


# ---------------------------------------------------------------------------
# statement inventory: the function contains each documented statement (up to renaming of locals)

def inventory(fn, rule, items, metas, root=None, fixed=None, required=True, ordered_add=False, rebind_ok=(), extra_defs_ok=()):
    """items: list of (instance, pattern source[, options]).  Metavariables (names in `metas`) bind
    consistently across all items to the function's local names, so renaming locals or reordering
    independent statements does not matter; changing what a statement computes does.
    Returns the final binding."""
    stmts = [s for s in fn.walk(root, into_nested=True) if isinstance(s, ast.stmt)
             and not isinstance(s, (ast.FunctionDef, ast.ClassDef, ast.Import, ast.ImportFrom, ast.Try, ast.With))]
    stmts.sort(key=lambda s: (s.lineno, s.col_offset))
    mkN = lambda: sym.Normalizer(ordered_add=ordered_add)
    nfs = [(s, sym.stmt_nf(s, mkN())) for s in stmts]
    seen_inst = {}
    uniq = []
    for it in items:
        k = seen_inst.get(it[0], 0)
        seen_inst[it[0]] = k + 1
        uniq.append((it[0] if k == 0 else '%s (%d)' % (it[0], k + 1), it[1]))
    pats = [(it[0], sym.parse_pattern(it[1], mkN()), it[1]) for it in uniq]
    # definition maps for expansion (temporaries inlined or introduced by the code)
    mnames = metas if isinstance(metas, dict) else {m: m for m in metas}
    targets = {}
    stored = set()
    for inst, pat, src in pats:
        if pat[0] == 'assign' and len(pat[1]) == 1 and isinstance(pat[1][0], tuple) and pat[1][0][0] == 'var' and pat[1][0][1] in mnames:
            targets.setdefault(pat[1][0][1], []).append(pat[2])
        # roots of stores / mutator calls / augmented assignments must not be expanded
        txt = repr(pat)
        def _root(t_):
            while isinstance(t_, tuple) and t_ and t_[0] in ('idx', 'attr') and len(t_) > 1:
                t_ = t_[1]
            return t_
        for m in mnames:
            if (pat[0] == 'assign' and any(isinstance(t, tuple) and t[0] in ('idx', 'attr') and _root(t) == ('var', m) for t in pat[1])) \
                    or (pat[0] == 'aug' and repr(('var', m)) in repr(pat[2])) \
                    or (pat[0] == 'expr' and repr(('attr', ('var', m), 'append')) in txt):
                stored.add(m)
    pdefs = {m: v[0] for m, v in targets.items() if len(v) == 1 and m not in stored and m not in (fixed or {})}
    cdefs = fn.cdefs(ordered_add=ordered_add)
    metas = sym.Metas(mnames, pdefs, cdefs)
    # roles defined by several documented statements (x = f(..); x = g(x)): the code may fuse them into one
    for m_, v_ in targets.items():
        if len(v_) > 1 and m_ not in stored and m_ not in (fixed or {}):
            metas.mdefs[m_] = [(k_, pat_[2]) for k_, (inst_, pat_, src_) in enumerate(pats)
                               if pat_[0] == 'assign' and len(pat_[1]) == 1 and pat_[1][0] == ('var', m_)]
    # alternative reading of each statement: locals replaced by their unique reaching plain definition
    alt = {}
    import collections as _coll
    conj = _coll.defaultdict(list)       # id(if statement) -> [(conjunct index, ('if', conjunct nf))]
    for s_, nf_ in nfs:
        if isinstance(s_, (ast.Assign, ast.Return, ast.Expr)) and not any(isinstance(a, (ast.FunctionDef, ast.Lambda)) and a is not fn.ast for a in fn.ancestors(s_)):
            # other readings of the statement: local helper lambdas applied (beta-reduced) only; all locals
            # replaced by their unique reaching definition
            for only_l in (True, False):
                try:
                    N_ = sym.Normalizer(resolver=fn.resolver(s_, only_lambdas=only_l), ordered_add=ordered_add)
                    if isinstance(s_, ast.Assign):
                        if only_l and isinstance(s_.value, ast.Lambda):
                            # the statement defines a lambda itself: reduce the helper calls inside its body
                            a_nf = ('assign', nf_[1], N_.n(s_.value))
                        else:
                            a_nf = ('assign', nf_[1], N_.n(s_.value))
                    elif isinstance(s_, ast.Return):
                        a_nf = ('return', N_.n(s_.value) if s_.value is not None else None)
                    else:
                        a_nf = ('expr', N_.n(s_.value))
                    if a_nf != nf_ and '#phi' not in repr(a_nf) and a_nf not in alt.get(id(s_), []):
                        alt.setdefault(id(s_), []).append(a_nf)
                except AnalysisError:
                    pass
            # third reading: the code's single-definition temporaries written out (roles keep their names when
            # they are defined more than once; a role with one definition is recovered by expansion of the pattern)
            try:
                tg = {n_.id for t_ in (s_.targets if isinstance(s_, ast.Assign) else []) for n_ in ast.walk(t_) if isinstance(n_, ast.Name)}
                a_nf = sym.expand_temps(nf_, cdefs, skip=tg)
                if a_nf != nf_ and a_nf not in alt.get(id(s_), []):
                    alt.setdefault(id(s_), []).append(a_nf)
            except Exception:
                pass
        elif isinstance(s_, (ast.If, ast.While)) and nf_[0] in ('if', 'while'):
            cands_ = []
            try:
                t_ = sym.expand_temps(nf_[1], cdefs)
                if t_ != nf_[1]:
                    cands_.append((nf_[0], t_))
            except Exception:
                pass
            if isinstance(s_, ast.If):
                # `if c: continue` + rest  and  `if not c: rest`, `if c: A else: B` and `if not c: B else: A` are one
                # construct: an `if` item also matches the opposite test (the run conditions of the dependent
                # statements are decided by CONTEXT)
                for c_ in [nf_] + list(cands_):
                    for ng in (sym.negate(c_[1]), sym.negate_deep(c_[1])):
                        if ('if', ng) not in cands_:
                            cands_.append(('if', ng))
            if isinstance(s_, ast.If) and not s_.orelse:
                # `if a and b:` and `if a: if b:` are one construct: a conjunct may be matched on its own (each by
                # a different item), and an outer test may be read together with the only `if` it contains
                if isinstance(s_.test, ast.BoolOp) and isinstance(s_.test.op, ast.And):
                    for j_, v_ in enumerate(s_.test.values):
                        try:
                            conj[id(s_)].append((j_, ('if', mkN().n(v_))))
                        except Exception:
                            pass
                if len(s_.body) == 1 and isinstance(s_.body[0], ast.If) and not s_.body[0].orelse:
                    try:
                        inner_ = mkN().n(s_.body[0].test)
                        parts_ = []
                        for x_ in (nf_[1], inner_):
                            parts_ += list(x_[1:]) if (isinstance(x_, tuple) and x_ and x_[0] == 'and') else [x_]
                        cands_.append(('if', ('and',) + tuple(sorted(parts_, key=repr))))
                    except Exception:
                        pass
            if cands_:
                alt[id(s_)] = cands_
        elif isinstance(s_, ast.AugAssign) and isinstance(s_.target, ast.Name) and nf_[0] == 'aug':
            # `x += e` on a plain name reads as `x = x + e` for matching (and the other way round below)
            try:
                bo = ast.BinOp(left=ast.Name(id=s_.target.id, ctx=ast.Load()), op=s_.op, right=s_.value)
                alt[id(s_)] = [('assign', (nf_[2],), mkN().n(bo))]
            except Exception:
                pass
    best = {'n': -1, 'binding': {}, 'matched': {}}
    via_alt = {}
    used_conj = {}

    ldefs_cache = {}

    def ldefs_of(s_):
        """locals used by the statement that have exactly one (plain, unmodified) reaching definition there"""
        if id(s_) in ldefs_cache:
            return ldefs_cache[id(s_)]
        out = {}
        node = fn.cfg.node_containing(s_)
        if node is not None and not isinstance(s_, (ast.For, ast.While)):
            root_ = s_.test if isinstance(s_, ast.If) else s_
            for x in ast.walk(root_):
                if isinstance(x, ast.Name) and isinstance(x.ctx, ast.Load) and x.id not in out and x.id not in cdefs:
                    try:
                        r = fn.resolver(s_)(x)
                    except Exception:
                        r = None
                    v = getattr(r, 'expr', None)
                    if v is not None and not isinstance(v, ast.Lambda):
                        out[x.id] = mkN().n(v)
        ldefs_cache[id(s_)] = out
        return out

    budget = [0]

    def solve(i, binding, matched, skipped):
        budget[0] += 1
        if budget[0] > 60000:
            return False               # search budget exhausted: reported as "no consistent reading found"
        if len(matched) > best['n']:
            best.update(n=len(matched), binding=dict(binding), matched=dict(matched))
        if i == len(pats):
            # a skipped definition must have been met, inlined, inside another documented statement
            for m in skipped:
                if isinstance(m, tuple) and m[0] == 'fused':
                    if (m[1], m[2]) not in binding.get('__px__', ()):
                        return False
                    continue
                bm = binding.get(m)
                if not (isinstance(bm, tuple) and bm and bm[0] == 'expanded'):
                    return False
            best.update(n=len(pats) + 1, binding=dict(binding), matched=dict(matched), skipped=list(skipped), conj=dict(used_conj))
            return True
        inst, pat, src = pats[i]
        n_direct = 0
        # first without, then with the reading "a role with several definitions has one of them written out here"
        for fused_on, (s, nf) in [(f_, x_) for f_ in ((False, True) if metas.mdefs else (False,)) for x_ in nfs]:
            metas.mdefs_on = fused_on
            taken = [used_conj.get(k_) for k_, m in matched.items() if m is s]
            if taken and (None in taken or id(s) not in conj):
                continue
            metas.ldefs = ldefs_of(s)
            metas.cur = id(s)
            if not taken:
                for cand in ([nf] + alt.get(id(s), [])):
                    for b in sym._unify(pat, cand, binding, metas):
                        n_direct += 1
                        matched[inst] = s
                        used_conj[inst] = None
                        via_alt[inst] = cand is not nf
                        if solve(i + 1, b, matched, skipped):
                            return True
                        del matched[inst]
                        break          # first unifier per reading is enough; alternatives differ only in AC order
            cj = [(j_, c_) for j_, c_ in conj.get(id(s), []) if not any(j_ in (t_ if isinstance(t_, tuple) else (t_,)) for t_ in taken)]
            if cj and pat[0] == 'if':
                # the item's test - one condition or a conjunction - against distinct, still unused conjuncts
                pparts = list(pat[1][1:]) if (isinstance(pat[1], tuple) and pat[1] and pat[1][0] == 'and') else [pat[1]]
                if len(pparts) <= len(cj) and not (len(pparts) == len(conj.get(id(s), [])) and not taken):
                    def assign(k_, b_, used_):
                        if k_ == len(pparts):
                            yield b_, used_
                            return
                        for j_, c_ in cj:
                            if j_ in used_:
                                continue
                            for b2 in sym._unify(pparts[k_], c_[1], b_, metas):
                                for r_ in assign(k_ + 1, b2, used_ + (j_,)):
                                    yield r_
                                break
                    for b, used_ in assign(0, binding, ()):
                        matched[inst] = s
                        used_conj[inst] = used_
                        via_alt[inst] = True
                        if solve(i + 1, b, matched, skipped):
                            return True
                        del matched[inst]
                        break
        if pat[0] == 'assign' and len(pat[1]) == 1 and isinstance(pat[1][0], tuple) and pat[1][0][0] == 'var' \
                and pat[1][0][1] in pdefs and pat[1][0][1] not in binding:
            if solve(i + 1, binding, matched, skipped + [pat[1][0][1]]):
                return True
        if n_direct == 0 and pat[0] == 'assign' and len(pat[1]) == 1 and pat[1][0] == pat[2]:
            # `X = np.array(X)` and the like: a cast the normal form does not see; fused into the definition of X
            if solve(i + 1, binding, matched, skipped):
                return True
        if n_direct == 0 and pat[0] == 'assign' and len(pat[1]) == 1 and isinstance(pat[1][0], tuple) and pat[1][0][0] == 'var' \
                and pat[1][0][1] in metas.mdefs:
            # one of several definitions of a role: may be fused into the statement matching another of them
            if solve(i + 1, binding, matched, skipped + [('fused', pat[1][0][1], i)]):
                return True
        return False

    init = {}
    for k, v in (fixed or {}).items():
        init[k] = ('var', v) if isinstance(v, str) else v
    ok = solve(0, init, {}, [])
    if ok:
        for inst, pat, src in pats:
            fn.ob(rule, inst, True, best['matched'].get(inst, fn.ast), key=inst)
        _params_not_replaced(fn, rule, best['matched'], rebind_ok)
        # a statement matched in its resolved reading documents the temporaries that were inlined into it
        for inst_, st_ in best['matched'].items():
            if via_alt.get(inst_):
                _document_inlined(fn, st_, 0)
        by_id = {id(st_): st_ for st_ in best['matched'].values()}
        for sid, nm in best['binding'].get('__ldefs__', ()):
            st_ = by_id.get(sid)
            node_ = fn.cfg.node_containing(st_) if st_ is not None else None
            if node_ is not None:
                ds_ = list(fn.rd.reaching(node_, nm))
                if len(ds_) == 1 and ds_[0].kind != 'entry' and isinstance(ds_[0].ast, ast.Assign):
                    fn.cx.documented.add(id(ds_[0].ast))
                    _document_inlined(fn, ds_[0].ast, 1)
        _roles_not_redefined(fn, rule, best['matched'], best['binding'], root, extra_defs_ok, tuple(fixed or ()))
        # in the recorded conditions a local is named after its role; metavariables of one alias group (two loops
        # that may or may not share their loop variable) count as one role
        gb = {}
        for m_, v_ in best['binding'].items():
            g_ = mnames.get(m_, m_) if not m_.startswith('__') else m_
            k_ = g_
            while k_ in gb and gb[k_] != v_:
                k_ += "'"
            gb[k_] = v_
        context_obligations(fn, rule, best['matched'], gb, root, best.get('conj') or {})
        out = dict(best['binding'])
        out['__matched__'] = dict(best['matched'])
        return out
    # report: with the best partial binding, which items have no matching statement
    binding = best['binding']
    matched = best['matched']
    n_missing = 0
    for inst, pat, src in pats:
        if inst in matched:
            fn.ob(rule, inst, True, matched[inst], key=inst)
            continue
        hit = None
        for s, nf in nfs:
            if sym.unify(pat, nf, binding, metas) is not None:
                hit = s
                break
        if hit is not None:
            fn.ob(rule, inst, True, hit, key=inst)
        else:
            n_missing += 1
            # nearest statement: same statement kind and same target, for the diagnostic
            near = [s for s, nf in nfs if nf and pat and nf[0] == pat[0] and (
                pat[0] != 'assign' or sym.unify(pat[1], nf[1], binding, metas) is not None)]
            fn.ob(rule, inst, False, near[0] if near else fn.ast,
                  detail='no statement of the documented form `%s`%s' % (
                      src.strip(), ('; nearest: `%s`' % norm_stmt(near[0])) if near else ''), key=inst)
    if n_missing == 0:
        # every step has a candidate statement of its own, yet no assignment of all steps to statements under one consistent
        # naming was found (two documented steps on one statement, roles that cannot be named consistently, or the search
        # gave up): the run conditions and definitions of the steps cannot be decided, which is reported, never passed over
        fn.ob(rule, 'the documented steps are all present together (one consistent reading of the function)', False, fn.ast,
              detail='each documented step matches some statement, but not all of them at once%s' % (
                  ' (search budget exhausted)' if budget[0] > 60000 else ''), key='consistent-reading')
    out = dict(binding)
    out['__matched__'] = dict(matched)
    return out


# ---------------------------------------------------------------------------------------------
# CONTEXT: the conditions under which a documented statement runs
# ---------------------------------------------------------------------------------------------
_EQ_NEG = {'Eq': 'NotEq', 'NotEq': 'Eq', 'Is': 'IsNot', 'IsNot': 'Is', 'In': 'NotIn', 'NotIn': 'In'}


def _literals(nf, pol, out):
    """Split a test (normal form) with a polarity into atomic literals.  Order comparisons are not
    negated into their complement (they differ on NaN); equality / identity / membership are."""
    if isinstance(nf, tuple) and nf:
        h = nf[0]
        if h == 'not':
            return _literals(nf[1], not pol, out)
        if h == 'truth':
            return _literals(nf[1], pol, out)
        if (h == 'and' and pol) or (h == 'or' and not pol):
            for x in nf[1:]:
                _literals(x, pol, out)
            return
        if h == 'cmp' and nf[1] in _EQ_NEG and not pol:
            return _literals(sym.mk_cmp(_EQ_NEG[nf[1]], nf[2], nf[3]), True, out)
        if h == 'and' and not pol:
            # not (a and b)  is  (not a) or (not b): one spelling for the compound literal
            parts = tuple(sorted((sym.negate(x) for x in nf[1:]), key=repr))
            out.add((('or',) + parts, True))
            return
    out.add((nf, pol))


def _abstract(nf, inv, locals_):
    """Replace bound local names by their role names and other locals by `_`; re-sort AC operands."""
    if isinstance(nf, tuple):
        if len(nf) == 2 and nf[0] == 'var' and isinstance(nf[1], str):
            nm = nf[1][:-4] if nf[1].endswith('#phi') else nf[1]
            if nm in inv:
                return ('var', '$' + inv[nm])
            if nm in locals_:
                return ('var', '_')
            return nf
        t = tuple(_abstract(x, inv, locals_) for x in nf)
        if t and t[0] in ('add', 'mul') and len(t) == 2 and isinstance(t[1], tuple):
            return (t[0], tuple(sorted(t[1], key=repr)))
        if t and t[0] in ('and', 'or'):
            return (t[0],) + tuple(sorted(t[1:], key=repr))
        if t and t[0] == 'cmp' and t[1] in ('Eq', 'NotEq') and repr(t[2]) > repr(t[3]):
            return ('cmp', t[1], t[3], t[2])
        return t
    return nf


def run_context(fn, st, binding=None, resolved=True, extra_tests=()):
    """Sorted literals describing when `st` runs: tests whose outcome dominates it (guard clauses that
    leave count through the false outcome), enclosing try bodies / handlers."""
    node = fn.cfg.node_containing(st)
    if node is None:
        return None
    inv = {}
    for m, v in (binding or {}).items():
        if isinstance(v, tuple) and len(v) == 2 and v[0] == 'var' and isinstance(v[1], str) and not m.startswith('__'):
            inv.setdefault(v[1], m.rstrip("'"))
    locs = getattr(fn, '_local_names', None)
    if locs is None:
        locs = {n.id for n in fn.walk(None, into_nested=True) if isinstance(n, ast.Name) and isinstance(n.ctx, ast.Store)}
        locs |= {a.arg for f_ in fn.walk(None, into_nested=True) if isinstance(f_, (ast.Lambda, ast.FunctionDef)) and f_ is not fn.ast
                 for a in f_.args.args}
        locs |= {h.name for h in fn.walk(None, into_nested=True) if isinstance(h, ast.ExceptHandler) and h.name}
        locs -= set(fn.params)
        fn._local_names = locs
    lits = set()
    for g in fn.stmts((ast.If, ast.While)):
        if g is st or id(g) not in fn.cfg.assume:
            continue
        a_t, a_f = fn.cfg.assume[id(g)]
        pol = None
        if fn.cfg.dominates(a_t, node):
            pol = True
        elif fn.cfg.dominates(a_f, node):
            pol = False
        if pol is None:
            continue
        tnf = sym.Normalizer().n(g.test)
        if resolved == 'temps':
            try:
                tnf = sym.expand_temps(tnf, fn.cdefs())
            except Exception:
                pass
        elif resolved:
            try:
                r_ = sym.Normalizer(resolver=fn.resolver(g)).n(g.test)
                if '#phi' not in repr(r_):
                    tnf = r_
            except AnalysisError:
                pass
        _literals(tnf, pol, lits)
    for t_, pol_ in extra_tests:
        tnf = sym.Normalizer().n(t_)
        if resolved == 'temps':
            try:
                tnf = sym.expand_temps(tnf, fn.cdefs())
            except Exception:
                pass
        elif resolved:
            try:
                r_ = sym.Normalizer(resolver=fn.resolver(st)).n(t_)
                if '#phi' not in repr(r_):
                    tnf = r_
            except AnalysisError:
                pass
        _literals(tnf, pol_, lits)
    out = set()
    for nf, pol in lits:
        out.add(('when ' if pol else 'unless ') + sym.show(_abstract(nf, inv, locs)))
    prev = st
    for a in fn.ancestors(st):
        if isinstance(a, (ast.FunctionDef, ast.Lambda)):
            break
        if isinstance(a, ast.Try):
            if any(prev is x for x in a.body):
                out.add('inside try catching [%s]' % ', '.join(sorted(
                    '/'.join(sorted(handler_types(h))) if h.type is not None else 'everything' for h in a.handlers)))
        if isinstance(a, ast.ExceptHandler):
            out.add('inside handler of [%s]' % ('/'.join(sorted(handler_types(a))) if a.type is not None else 'everything'))
        prev = a
    return sorted(out)


def loop_exits(fn, rule, inst, loop, binding=None):
    """LOOP-EXITS: a documented loop visits every element and runs every iteration to its end, except
    through the recorded `break` / `continue` / `return` statements (each with its run context)."""
    def own_jumps(node, inner):
        for ch in ast.iter_child_nodes(node):
            if isinstance(ch, (ast.FunctionDef, ast.Lambda, ast.ClassDef)):
                continue
            if isinstance(ch, (ast.Break, ast.Continue)):
                par = fn.parent.get(id(ch))
                guard = isinstance(ch, ast.Continue) and isinstance(par, ast.If) and len(par.body) == 1 and par.body[0] is ch and not par.orelse
                # `if c: continue` is the guard-clause spelling of `if not c: <rest>`; the run conditions of
                # the statements behind it are decided by CONTEXT
                if not inner and not guard:
                    yield ch
            elif isinstance(ch, ast.Return):
                yield ch
            elif isinstance(ch, (ast.For, ast.While)):
                for x in own_jumps(ch, True):
                    yield x
            else:
                for x in own_jumps(ch, inner):
                    yield x
    tables = {'as written': {}, 'resolved': {}, 'temporaries written out': {}}
    for j in own_jumps(loop, False):
        for reading in tables:
            c = run_context(fn, j, binding, resolved={'as written': False, 'resolved': True}.get(reading, 'temps'))
            if c is not None:
                k = '%s %s' % (type(j).__name__.lower(), ' & '.join(c) or 'always')
                tables[reading].setdefault(k, []).append(j)
    fn.cx.context_returns(fn, rule, tables, what='<exits of loop: %s>' % inst,
                          inst='every iteration of the loop runs to its end except through the documented break/continue/return: %s' % inst)


def context_obligations(fn, rule, matched, binding, root=None, conj_of=None, raises_only=False):
    """CONTEXT: each documented statement, and each return of the function, runs under the conditions
    recorded for it in flowlint/contexts.json (frozen from the reviewed tree by tools/freeze_contexts.py)."""
    cx = fn.cx
    for inst, st in matched.items():
        # an item matched on the j-th conjunct of `if c0 and c1 and ...` is evaluated when the earlier ones hold
        j_ = (conj_of or {}).get(inst)
        if isinstance(j_, tuple):
            j_ = min(j_) if j_ else None
        extra = [(v_, True) for v_ in st.test.values[:j_]] if (j_ and isinstance(st, ast.If) and isinstance(st.test, ast.BoolOp)) else []
        ctx = run_context(fn, st, binding, resolved=False, extra_tests=extra)
        if ctx is None:
            continue
        cx.context_ob(fn, rule, inst, st, {'as written': ctx, 'resolved': run_context(fn, st, binding, resolved=True, extra_tests=extra),
                                           'temporaries written out': run_context(fn, st, binding, resolved='temps', extra_tests=extra)})
    # loops: the ways out of an iteration other than its end (break / continue / return), with their conditions
    for inst, st in matched.items():
        if isinstance(st, (ast.For, ast.While)):
            loop_exits(fn, rule, inst, st, binding)
    rets = [r for r in fn.walk(root, into_nested=False) if isinstance(r, ast.Return)]
    tables = {}
    for reading in ('as written', 'resolved', 'temporaries written out'):
        table = tables.setdefault(reading, {})
        for r in rets:
            c = run_context(fn, r, binding, resolved={'as written': False, 'resolved': True}.get(reading, 'temps'))
            if c is not None:
                table.setdefault(' & '.join(c) or 'always', []).append(r)
    if not raises_only:
        cx.context_returns(fn, rule, tables)
    # ... and refuses (raises) under the documented conditions only: exception type + run conditions of every
    # `raise` of the function (messages do not matter)
    raises = [r for r in fn.walk(root, into_nested=False) if isinstance(r, ast.Raise)]
    rtab = {}
    for reading in ('as written', 'resolved', 'temporaries written out'):
        t_ = rtab.setdefault(reading, {})
        for r in raises:
            c = run_context(fn, r, binding, resolved={'as written': False, 'resolved': True}.get(reading, 'temps'))
            if c is not None:
                e_ = r.exc.func if isinstance(r.exc, ast.Call) else r.exc
                ty = (dotted(e_) or 'raise').split('.')[-1] if e_ is not None else 're-raise'
                t_.setdefault('%s %s' % (ty, ' & '.join(c) or 'always'), []).append(r)
    cx.context_returns(fn, rule, rtab, what='<raises>', inst='the function refuses (raises) under the documented conditions only')


def _roles_not_redefined(fn, rule, matched, binding, root=None, extra_defs_ok=(), fixed=()):
    """NOREDEF: when an inventory documents a definition of a local (a metavariable bound to it is the
    target of a matched assignment or loop), every other binding of that local in the inventory's scope
    must be documented as well - matched by an inventory or the site of another discharged obligation of
    the same check (decided at the end of the run, core.run_rules) - or be an initial empty value, whose
    number and run conditions are recorded (CONTEXT).  An extra definition - "adjust the index afterwards",
    "reverse the list on this path" - changes what the later documented steps compute."""
    roles = {}
    for m, v in binding.items():
        if isinstance(v, tuple) and len(v) == 2 and v[0] == 'var' and isinstance(v[1], str) and not m.startswith('__') \
                and m not in fixed:
            roles.setdefault(v[1], m)
    if not roles:
        return
    matched_ids = {id(st) for st in matched.values()}
    fn.cx.documented |= matched_ids
    params = set(fn.params)

    def targets(st):
        out = []
        if isinstance(st, ast.Assign):
            for t in st.targets:
                if isinstance(t, (ast.Name, ast.Tuple, ast.List)):
                    out += [n.id for n in ast.walk(t) if isinstance(n, ast.Name) and isinstance(n.ctx, ast.Store)]
        elif isinstance(st, (ast.AugAssign, ast.AnnAssign)):
            if isinstance(st.target, ast.Name):
                out.append(st.target.id)
        elif isinstance(st, ast.For):
            out += [n.id for n in ast.walk(st.target) if isinstance(n, ast.Name)]
        elif isinstance(st, ast.With):
            for it in st.items:
                if it.optional_vars is not None:
                    out += [n.id for n in ast.walk(it.optional_vars) if isinstance(n, ast.Name)]
        return out
    MUTATORS = ('append', 'extend', 'insert', 'pop', 'remove', 'sort', 'reverse', 'update', 'clear', 'add', 'discard',
                'setdefault', 'popitem', 'fill', 'resize', 'put', 'itemset', 'partition', 'byteswap')

    def mutated(st):
        """local names a statement modifies in place (mutator call, store through subscript/attribute, del)."""
        out = []
        if isinstance(st, ast.Expr) and isinstance(st.value, ast.Call) and isinstance(st.value.func, ast.Attribute) \
                and st.value.func.attr in MUTATORS and isinstance(st.value.func.value, ast.Name):
            out.append(st.value.func.value.id)
        elif isinstance(st, (ast.Assign, ast.AugAssign)):
            tg = st.targets if isinstance(st, ast.Assign) else [st.target]
            for t in tg:
                if isinstance(t, (ast.Subscript, ast.Attribute)):
                    r = t
                    while isinstance(r, (ast.Subscript, ast.Attribute)):
                        r = r.value
                    if isinstance(r, ast.Name):
                        out.append(r.id)
        elif isinstance(st, ast.Delete):
            for t in st.targets:
                r = t
                while isinstance(r, (ast.Subscript, ast.Attribute)):
                    r = r.value
                if isinstance(r, ast.Name):
                    out.append(r.id)
        return out
    defined_here = set()
    mutated_here = set()
    for st in matched.values():
        defined_here |= set(targets(st))
        mutated_here |= set(mutated(st))
    seen = set()
    inits = {}
    for st in fn.walk(root, into_nested=False):
        if isinstance(st, ast.stmt) and id(st) not in matched_ids:
            # in-place modification of a local whose definition or modifications the inventory documents
            for name in mutated(st):
                if name in roles and (name in defined_here or name in mutated_here) and name not in params \
                        and roles[name] not in extra_defs_ok and (name, id(st)) not in seen:
                    seen.add((name, id(st)))
                    fn.cx.pending_redef.append((fn, rule, roles[name], name, st))
        if not isinstance(st, (ast.Assign, ast.AugAssign, ast.AnnAssign, ast.For, ast.With)) or id(st) in matched_ids:
            continue
        if isinstance(st, ast.Assign) and len(st.targets) == 1 and isinstance(st.targets[0], ast.Name):
            try:
                nf_st = sym.stmt_nf(st, sym.Normalizer())
                if nf_st[0] == 'assign' and nf_st[1][0] == nf_st[2]:
                    continue           # `x = np.array(x)` and the like: a cast, the same value in normal form
            except Exception:
                pass
        if isinstance(st, ast.Assign) and len(st.targets) == 1 and isinstance(st.targets[0], ast.Name) and st.targets[0].id in roles \
                and st.targets[0].id not in params and st.targets[0].id in defined_here and _is_empty_init(st.value):
            inits.setdefault(roles[st.targets[0].id], []).append(st)
            continue
        for name in targets(st):
            if name in roles and name in defined_here and name not in params and roles[name] not in extra_defs_ok \
                    and (name, id(st)) not in seen:
                seen.add((name, id(st)))
                fn.cx.pending_redef.append((fn, rule, roles[name], name, st))
    for role in sorted(inits):
        tables = {'as written': {}, 'resolved': {}, 'temporaries written out': {}}
        for st in inits[role]:
            for reading in tables:
                c = run_context(fn, st, binding, resolved={'as written': False, 'resolved': True}.get(reading, 'temps'))
                if c is not None:
                    k = '%s %s' % (sym.show(sym.norm(st.value)), ' & '.join(c) or 'always')
                    tables[reading].setdefault(k, []).append(st)
        fn.cx.context_returns(fn, rule, tables, what='<initial values of %s>' % role,
                              inst='the value in role %s starts empty exactly where documented' % role)


def settle_redefinitions(cx):
    """End of a run: an extra definition of a documented local that no rule of this check documented."""
    for fn, rule, role, name, st in cx.pending_redef:
        if id(st) in cx.documented:
            continue
        cx.ob(rule, 'the value in role %s is defined by documented statements only' % role, False, fn.mod, st, fn.qual,
              detail='`%s` also defines or modifies `%s`, which the documented steps use as %s' % (norm_stmt(st)[:120], name, role),
              key='redef|%s|%s' % (role, sym.show(sym.stmt_nf(st))[:80]))
    cx.pending_redef = []


def _document_inlined(fn, st, depth):
    node = fn.cfg.node_containing(st)
    if node is None or depth > 6:
        return
    roots = [st.value] if isinstance(st, (ast.Assign, ast.Return, ast.Expr)) and st.value is not None else []
    for root in roots:
        for x in ast.walk(root):
            if isinstance(x, ast.Name) and isinstance(x.ctx, ast.Load):
                ds = list(fn.rd.reaching(node, x.id))
                if len(ds) == 1 and ds[0].kind != 'entry' and isinstance(ds[0].ast, ast.Assign) and id(ds[0].ast) not in fn.cx.documented:
                    fn.cx.documented.add(id(ds[0].ast))
                    _document_inlined(fn, ds[0].ast, depth + 1)


def _is_empty_init(v):
    if isinstance(v, ast.Constant) and v.value is None:
        return True
    if isinstance(v, (ast.List, ast.Tuple, ast.Set)) and not v.elts:
        return True
    if isinstance(v, ast.Dict) and not v.keys:
        return True
    if isinstance(v, ast.Call) and dotted(v.func) in ('list', 'dict', 'set', 'tuple', 'collections.OrderedDict') and not v.args and not v.keywords:
        return True
    return False


def _params_not_replaced(fn, rule, matched, rebind_ok=()):
    """An argument mentioned by a documented statement must still hold the caller's value there: the
    only definitions reaching the statement are the entry and statements that are themselves documented
    (matched) or listed in rebind_ok."""
    params = set(fn.params)
    matched_nodes = set()
    for st in matched.values():
        n = fn.cfg.node_containing(st)
        if n is not None:
            matched_nodes.add(n.id)
    reported = set()
    for inst, st in matched.items():
        node = fn.cfg.node_containing(st)
        if node is None:
            continue
        roots = [st.test] if isinstance(st, (ast.If, ast.While)) else ([st.iter] if isinstance(st, ast.For) else [st])
        for root in roots:
            for x in ast.walk(root):
                if isinstance(x, ast.Name) and isinstance(x.ctx, ast.Load) and x.id in params and x.id not in rebind_ok:
                    if fn.cfg.stmt_of(x) is not st and not isinstance(st, (ast.If, ast.While, ast.For)):
                        continue       # inside a nested function/lambda body: other scope
                    bad = [d for d in fn.rd.reaching(node, x.id) if d.kind != 'entry' and d.id not in matched_nodes]
                    if bad and (x.id, bad[0].id) not in reported:
                        reported.add((x.id, bad[0].id))
                        fn.ob(rule, 'argument %s still holds the caller\'s value where the documented step uses it' % x.id, False, bad[0].ast,
                              detail='`%s` replaces %s before: %s' % (norm_stmt(bad[0].ast), x.id, inst), key='param-replaced|' + x.id)


def if_chain(block, i):
    """The if/elif/else chain starting at block[i], robust to the flattening of `else` after a leaving
    branch (canon C5).  Returns (links [(test, body, ifstmt)], else_body)."""
    st = block[i]
    links = []
    rest = list(block[i + 1:])
    cur = st
    while True:
        links.append((cur.test, cur.body, cur))
        if len(cur.orelse) == 1 and isinstance(cur.orelse[0], ast.If):
            cur = cur.orelse[0]
            rest = []
            continue
        if cur.orelse:
            # `else` may itself start with a flattened link: [If(leaving body), *tail]
            tail = list(cur.orelse)
            while tail and isinstance(tail[0], ast.If) and not tail[0].orelse and always_leaves(tail[0].body) and len(tail) > 1:
                links.append((tail[0].test, tail[0].body, tail[0]))
                tail = tail[1:]
            return links, tail
        # no else: if every link so far leaves, the statements that follow are the else branch
        if all(always_leaves(b) for _, b, _ in links):
            tail = rest
            while tail and isinstance(tail[0], ast.If) and not tail[0].orelse and always_leaves(tail[0].body) and len(tail) > 1:
                links.append((tail[0].test, tail[0].body, tail[0]))
                tail = tail[1:]
            if tail and isinstance(tail[0], ast.If) and tail[0].orelse:
                l2, e2 = if_chain(tail, 0)
                return links + l2, e2
            return links, tail
        return links, []


def always_leaves(stmts):
    if not stmts:
        return False
    last = stmts[-1]
    if isinstance(last, (ast.Raise, ast.Return, ast.Continue, ast.Break)):
        return True
    if isinstance(last, ast.If):
        return always_leaves(last.body) and always_leaves(last.orelse)
    return False


def block_of(fn, st):
    """(list, index) of the statement list that directly contains st."""
    par = fn.parent.get(id(st))
    for fld in ('body', 'orelse', 'finalbody'):
        lst = getattr(par, fld, None)
        if isinstance(lst, list):
            for i, x in enumerate(lst):
                if x is st:
                    return lst, i
    if isinstance(par, ast.Try):
        for h in par.handlers:
            for i, x in enumerate(h.body):
                if x is st:
                    return h.body, i
    return None, None


class Unsupported(Exception):
    pass


def _subst_env(expr, env):
    import copy as _c

    class S(ast.NodeTransformer):
        def visit_Name(self, n):
            if isinstance(n.ctx, ast.Load) and n.id in env:
                return _c.deepcopy(env[n.id])
            return n
    return S().visit(_c.deepcopy(expr))


def summarise(stmts, env=None):
    """Symbolic summary of a straight-line/if-else block: name -> expression (AST) of its final value in
    terms of the values on entry.  Spelling variants (temporaries, statement vs conditional expression)
    get the same summary."""
    env = dict(env or {})
    for st in stmts:
        if isinstance(st, ast.Assign) and len(st.targets) == 1 and isinstance(st.targets[0], ast.Name):
            env[st.targets[0].id] = _subst_env(st.value, env)
        elif isinstance(st, ast.If):
            e1 = summarise(st.body, env)
            e2 = summarise(st.orelse, env)
            test = _subst_env(st.test, env)
            for nm in set(e1) | set(e2):
                a = e1.get(nm, ast.Name(id=nm, ctx=ast.Load()))
                b = e2.get(nm, ast.Name(id=nm, ctx=ast.Load()))
                if ast.dump(a) != ast.dump(b):
                    env[nm] = ast.IfExp(test=test, body=a, orelse=b)
                else:
                    env[nm] = a
        elif isinstance(st, (ast.Pass, ast.Expr)):
            continue
        else:
            raise Unsupported(norm_stmt(st))
    return env


def exits_of(cx, rule, quals):
    """Returns and refusals (exception type) of the named functions run under the recorded conditions only."""
    for q in quals:
        Fn(cx, q).exits_ob(rule)
